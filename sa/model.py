"""The resolved program: modules, classes, functions, constants, aliases.

Everything is computed from the *current* source of the billiard package
(``root``/billiard/**/*.py) or from an in-memory overlay {relpath: source}.
Nothing of billiard is imported or executed.
"""
import ast
import os
import sys
import signal
import socket
import select
import threading
import platform
import types


class AnalysisError(Exception):
    """The analysis itself cannot proceed (vanished anchor, unresolved callee)."""


PKG = 'billiard'

# Build configuration the pinned suite runs under: the folding environment.
# Module-, class- and function-level tests built only from these names are
# evaluated; the arm not taken is recorded as not analysed.
_FOLD_ENV = {
    'sys': sys, 'os': os, 'signal': signal, 'socket': socket,
    'select': select, 'threading': threading, 'platform': platform,
    'PY3': True, '_winapi': None, 'hasattr': hasattr, 'getattr': getattr,
    'True': True, 'False': False, 'None': None,
}
_FOLD_NAMES = set(_FOLD_ENV)


def fold_test(expr, extra=None):
    """Evaluate a configuration test; returns True/False or None (unknown)."""
    names = {n.id for n in ast.walk(expr) if isinstance(n, ast.Name)}
    env = dict(_FOLD_ENV)
    if extra:
        env.update(extra)
    if not names or not names <= set(env):
        return None
    # only pure constructs
    for n in ast.walk(expr):
        if isinstance(n, ast.Call):
            f = n.func
            ok = (isinstance(f, ast.Name) and f.id in ('hasattr', 'getattr')) or \
                 (isinstance(f, ast.Attribute) and isinstance(f.value, ast.Name)
                  and f.value.id == 'platform' and f.attr == 'system')
            if not ok:
                return None
        if isinstance(n, (ast.Lambda, ast.Yield, ast.Await, ast.NamedExpr)):
            return None
    try:
        code = compile(ast.Expression(body=expr), '<fold>', 'eval')
        return bool(eval(code, {'__builtins__': {}}, env))
    except Exception:
        return None


def walk_own(node):
    """ast.walk that does not descend into nested function/lambda/class bodies."""
    todo = [node]
    first = True
    while todo:
        n = todo.pop()
        yield n
        for c in ast.iter_child_nodes(n):
            if isinstance(c, (ast.FunctionDef, ast.AsyncFunctionDef, ast.Lambda,
                              ast.ClassDef)):
                continue
            todo.append(c)


def dotted(expr):
    """'a.b.c' for Name/Attribute chains, else None."""
    parts = []
    while isinstance(expr, ast.Attribute):
        parts.append(expr.attr)
        expr = expr.value
    if isinstance(expr, ast.Name):
        parts.append(expr.id)
        return '.'.join(reversed(parts))
    return None


_KNOWN = []


def _reference():
    """names of the reference tree (recorded by tools/reference_names.py): functions, the locals of every function,
    the module-level names of every module.  What is not among them is new: a new private helper is inlined at its
    call sites (sa/inline.py), a new constant or local is read through (sa/normalize.py)"""
    if not _KNOWN:
        import json
        p = os.path.join(os.path.dirname(os.path.abspath(__file__)), 'rules', 'reference_names.json')
        ref = None
        if os.path.exists(p):
            ref = json.load(open(p))
            ref['functions'] = set(ref['functions'])
        _KNOWN.append(ref)
    return _KNOWN[0]


def _known_functions():
    ref = _reference()
    return ref['functions'] if ref else None


class _CanonicalUpdates(ast.NodeTransformer):
    """One spelling for "update in place by a number":  T = T + k  /  T = T - k  (k a numeric literal, T a name,
    attribute or subscript) is read as  T += k  /  T -= k.  Positions are kept, so reports still point at the line."""

    def visit_Assign(self, node):
        self.generic_visit(node)
        v = node.value
        if len(node.targets) == 1 and isinstance(node.targets[0], (ast.Name, ast.Attribute, ast.Subscript)) and \
                isinstance(v, ast.BinOp) and isinstance(v.op, (ast.Add, ast.Sub)) and \
                isinstance(v.right, ast.Constant) and isinstance(v.right.value, (int, float)) and \
                not isinstance(v.right.value, bool) and ast.unparse(v.left) == ast.unparse(node.targets[0]):
            new = ast.AugAssign(node.targets[0], v.op, v.right)
            return ast.copy_location(new, node)
        return node


class ModuleInfo:
    def __init__(self, name, relpath, source, tree):
        self.name, self.relpath, self.source, self.tree = name, relpath, source, tree
        self.imports = {}      # local name -> (module, name) | (module, None)
        self.consts = {}       # name -> python value (folded)
        self.assigns = {}      # name -> last module-level value expr
        self.all_assigns = {}  # name -> [every module-level value expr]
        self.not_analysed = []  # folded-away arms


class ClassInfo:
    def __init__(self, name, module, node, qual):
        self.name, self.module, self.node, self.qual = name, module, node, qual
        self.base_names = [dotted(b) or ast.unparse(b) for b in node.bases]
        self.bases = []        # resolved ClassInfo
        self.methods = {}      # name -> FuncInfo
        self.attrs = {}        # class-level name -> value expr

    def __repr__(self):
        return '<class %s>' % self.qual


class FuncInfo:
    def __init__(self, name, module, node, qual, cls=None, parent=None):
        self.name, self.module, self.node, self.qual = name, module, node, qual
        self.cls, self.parent = cls, parent
        self.children = {}
        self._aliases = None
        self._cfg = None

    def __repr__(self):
        return '<func %s>' % self.qual

    @property
    def relpath(self):
        return self.module.relpath

    @property
    def params(self):
        a = self.node.args
        return [x.arg for x in a.posonlyargs + a.args] + \
               ([a.vararg.arg] if a.vararg else []) + \
               [x.arg for x in a.kwonlyargs] + \
               ([a.kwarg.arg] if a.kwarg else [])

    def positional_params(self):
        a = self.node.args
        return [x.arg for x in a.posonlyargs + a.args]

    def default_of(self, param):
        a = self.node.args
        pos = a.posonlyargs + a.args
        defaults = a.defaults
        off = len(pos) - len(defaults)
        for i, p in enumerate(pos):
            if p.arg == param and i >= off:
                return defaults[i - off]
        for p, d in zip(a.kwonlyargs, a.kw_defaults):
            if p.arg == param:
                return d
        return None

    # ---- local aliases ------------------------------------------------
    @property
    def aliases(self):
        """name -> expr for locals assigned exactly once to a Name/Attribute
        chain (``put = self.outq.put``) and for parameters whose default is
        one (``now=monotonic``)."""
        if self._aliases is not None:
            return self._aliases
        counts, values = {}, {}
        params = set(self.params)

        def bump(name, value=None):
            counts[name] = counts.get(name, 0) + 1
            values[name] = value

        def targets(t, value):
            if isinstance(t, ast.Name):
                bump(t.id, value)
            elif isinstance(t, (ast.Tuple, ast.List)):
                if isinstance(value, (ast.Tuple, ast.List)) and \
                        len(value.elts) == len(t.elts) and \
                        not any(isinstance(e, ast.Starred) for e in t.elts):
                    for te, ve in zip(t.elts, value.elts):
                        targets(te, ve)
                else:
                    for te in t.elts:
                        targets(te, None)
            elif isinstance(t, ast.Starred):
                targets(t.value, None)

        for n in walk_own(self.node):
            if n is self.node:
                continue
            if isinstance(n, ast.Assign):
                for t in n.targets:
                    targets(t, n.value if len(n.targets) == 1 else None)
            elif isinstance(n, ast.AugAssign):
                targets(n.target, None)
            elif isinstance(n, ast.AnnAssign) and n.value is not None:
                targets(n.target, n.value)
            elif isinstance(n, (ast.For, ast.AsyncFor)):
                targets(n.target, None)
            elif isinstance(n, (ast.With, ast.AsyncWith)):
                for it in n.items:
                    if it.optional_vars is not None:
                        targets(it.optional_vars, None)
            elif isinstance(n, ast.ExceptHandler) and n.name:
                bump(n.name, None)
            elif isinstance(n, ast.NamedExpr):
                targets(n.target, None)
            elif isinstance(n, (ast.Global, ast.Nonlocal)):
                for nm in n.names:
                    bump(nm, None)
                    bump(nm, None)
        out = {}
        for name, c in counts.items():
            v = values.get(name)
            if c == 1 and name not in params and v is not None and dotted(v):
                out[name] = v
        for p in params:
            if p in counts:
                continue
            d = self.default_of(p)
            if d is not None and dotted(d) and self._names_a_callable(dotted(d)):
                out[p] = d
        self._aliases = out
        self._assign_counts = counts
        return out

    def _names_a_callable(self, d):
        """default-argument aliasing (``now=monotonic``) only for names that denote a
        function/module member, never for data constants (``max_frames=DEFAULT_MAX_FRAMES``)"""
        mi = self.module
        head = d.split('.')[0]
        if '.' in d:
            return head in mi.imports
        if head in mi.imports:
            return True
        if getattr(mi, 'model', None) is not None and ('%s:%s' % (mi.name, head)) in mi.model.funcs:
            return True
        v = mi.assigns.get(head)
        return v is not None and dotted(v) is not None and '.' in dotted(v)

    def assigned_names(self):
        self.aliases
        return self._assign_counts

    def canon(self, expr, _depth=0):
        """Canonical dotted text of an expression after alias expansion
        (through enclosing functions for closure variables)."""
        if _depth > 12:
            return ast.unparse(expr)
        if isinstance(expr, ast.Name):
            fi = self
            while fi is not None:
                if expr.id in fi.aliases:
                    target = fi.aliases[expr.id]
                    if dotted(target) == expr.id:
                        break
                    return fi.canon(target, _depth + 1)
                if expr.id in fi.assigned_names() or expr.id in fi.params:
                    break
                fi = fi.parent
            return expr.id
        if isinstance(expr, ast.Attribute):
            return self.canon(expr.value, _depth + 1) + '.' + expr.attr
        if isinstance(expr, ast.Call):
            args = [self.canon(a, _depth + 1) for a in expr.args]
            args += ['%s=%s' % (k.arg, self.canon(k.value, _depth + 1))
                     if k.arg else '**' + self.canon(k.value, _depth + 1)
                     for k in expr.keywords]
            return '%s(%s)' % (self.canon(expr.func, _depth + 1), ', '.join(args))
        if isinstance(expr, ast.Starred):
            return '*' + self.canon(expr.value, _depth + 1)
        if isinstance(expr, ast.Subscript):
            return '%s[%s]' % (self.canon(expr.value, _depth + 1),
                               self.canon(expr.slice, _depth + 1))
        if isinstance(expr, ast.Tuple):
            return '(' + ', '.join(self.canon(e, _depth + 1) for e in expr.elts) + \
                (',)' if len(expr.elts) == 1 else ')')
        if isinstance(expr, ast.UnaryOp) and isinstance(expr.op, ast.Not):
            return 'not ' + self.canon(expr.operand, _depth + 1)
        if isinstance(expr, ast.BinOp):
            return '(%s %s %s)' % (self.canon(expr.left, _depth + 1),
                                   _OPS.get(type(expr.op), '?'),
                                   self.canon(expr.right, _depth + 1))
        if isinstance(expr, ast.Compare) and len(expr.ops) == 1:
            return '%s %s %s' % (self.canon(expr.left, _depth + 1),
                                 _CMPS.get(type(expr.ops[0]), '?'),
                                 self.canon(expr.comparators[0], _depth + 1))
        return ast.unparse(expr)

    def callee(self, call):
        """canonical dotted name of a call's callee (or None)."""
        return self.canon(call.func)

    @property
    def cfg(self):
        if self._cfg is None:
            from .cfg import build_cfg
            self._cfg = build_cfg(self)
        return self._cfg

    def calls(self, name=None, suffix=None):
        """All Call nodes in own body whose canonical callee equals ``name``
        or ends with ``suffix``."""
        out = []
        for n in walk_own(self.node):
            if isinstance(n, ast.Call):
                c = self.callee(n)
                if (name is not None and c == name) or \
                        (suffix is not None and (c == suffix or c.endswith('.' + suffix))) or \
                        (name is None and suffix is None):
                    out.append(n)
        out.sort(key=lambda n: (n.lineno, n.col_offset))
        return out


_OPS = {ast.Add: '+', ast.Sub: '-', ast.Mult: '*', ast.Div: '/', ast.FloorDiv: '//',
        ast.Mod: '%', ast.BitAnd: '&', ast.BitOr: '|', ast.BitXor: '^',
        ast.LShift: '<<', ast.RShift: '>>', ast.Pow: '**'}
_CMPS = {ast.Eq: '==', ast.NotEq: '!=', ast.Lt: '<', ast.LtE: '<=', ast.Gt: '>',
         ast.GtE: '>=', ast.Is: 'is', ast.IsNot: 'is not', ast.In: 'in',
         ast.NotIn: 'not in'}


class Model:
    def __init__(self, root='/repo', overlay=None):
        self.root = root
        self.overlay = overlay or {}
        self.modules, self.classes, self.funcs = {}, {}, {}
        self.files = []
        self.inlined = []
        self._load()
        self._link()

    # ---- loading --------------------------------------------------------
    def _load(self):
        base = os.path.join(self.root, PKG)
        paths = []
        for dp, dn, fn in os.walk(base):
            dn[:] = [d for d in dn if d != '__pycache__']
            for f in fn:
                if f.endswith('.py'):
                    paths.append(os.path.relpath(os.path.join(dp, f), self.root))
        for rel in self.overlay:
            if rel not in paths and rel.startswith(PKG + '/'):
                paths.append(rel)
        from . import normalize
        ref = _reference() if not os.environ.get('VERIF_NO_NORMALIZE') else None
        parsed = []
        for rel in sorted(paths):
            if rel in self.overlay:
                src = self.overlay[rel]
            else:
                with open(os.path.join(self.root, rel), encoding='utf-8') as f:
                    src = f.read()
            try:
                tree = ast.parse(src, filename=rel)
            except SyntaxError as e:
                raise AnalysisError('cannot parse %s: %s' % (rel, e))
            name = rel[len(PKG) + 1:-3].replace('/', '.')
            if name.endswith('.__init__'):
                name = name[:-9]
            elif name == '__init__':
                name = ''
            if ref is not None:
                # before any other normal form: bodies are compared as parsed
                for s_ in normalize.restore_function_names(tree, name, ref):
                    self.inlined.append('function renamed relative to the reference tree, followed by its body: %s.%s' % (name, s_))
                for s_ in normalize.restore_attribute_names(tree, name, ref):
                    self.inlined.append('attribute renamed relative to the reference tree, followed through the bodies that use it: %s.%s' % (name, s_))
            tree = _CanonicalUpdates().visit(tree)
            tree = normalize.default_idiom(tree)
            normalize.with_form(tree)
            normalize.search_loops(tree)
            normalize.unpack_form(tree)
            tree = normalize.small_forms(tree)
            parsed.append((rel, name, src, tree))
        # arguments passed by keyword where the callee takes them by position: one table for the whole package
        table = normalize.signature_table([t for (_r, _n, _s, t) in parsed])
        for rel, name, src, tree in parsed:
            normalize.positional_calls(tree, table)
            if ref is not None:
                from . import inline
                for c in normalize.new_from_imports(tree, ref['module_names'].get(name)):
                    self.inlined.append('new from-import read as the dotted name: %s' % c)
                normalize.insort_form(tree)
                for c in normalize.fold_new_constants(tree, ref['module_names'].get(name)):
                    self.inlined.append('constant %s.%s read through' % (name, c))
                for s_ in normalize.restore_methods(tree, name, set(ref['functions']), ref['locals']):
                    self.inlined.append('new nested function read as the method it was: %s' % s_)
                for s_ in normalize.restore_closures(tree, name, set(ref['functions']), ref['locals']):
                    self.inlined.append('new staticmethod read as the closure it was: %s' % s_)
                for s_ in normalize.restore_staticmethods(tree, name, ref['functions']):
                    self.inlined.append('module function read as the staticmethod %s.%s again' % (name, s_))
                self.inlined += inline.apply(tree, name, ref['functions'], ref['locals'])
                normalize.with_form(tree)
                normalize.search_loops(tree)
                is_new = normalize.new_local_test(tree, name, ref['locals'])
                normalize.local_generators(tree, is_new)
                normalize.builder_forms(tree, is_new)
                for v in normalize.forward_new_locals(tree, name, ref['locals']):
                    self.inlined.append('local %s read through' % v)
                normalize.with_form(tree)
            mi = ModuleInfo(name, rel, src, tree)
            mi.model = self
            self.modules[name] = mi
            self.files.append(rel)
            self._index_module(mi)

    def _body_folded(self, body, mi):
        """Yield statements of a module/class body with configuration ``if``
        and ``try/except ImportError`` flattened."""
        for st in body:
            if isinstance(st, ast.If):
                v = fold_test(st.test, mi.consts if False else None)
                if v is True:
                    if st.orelse:
                        mi.not_analysed.append('%s:%d else-arm of `%s`' % (
                            mi.relpath, st.lineno, ast.unparse(st.test)))
                    yield from self._body_folded(st.body, mi)
                elif v is False:
                    mi.not_analysed.append('%s:%d then-arm of `%s`' % (
                        mi.relpath, st.lineno, ast.unparse(st.test)))
                    yield from self._body_folded(st.orelse, mi)
                else:
                    yield from self._body_folded(st.body, mi)
                    yield from self._body_folded(st.orelse, mi)
            elif isinstance(st, ast.Try):
                yield from self._body_folded(st.body, mi)
                for h in st.handlers:
                    yield from self._body_folded(h.body, mi)
                yield from self._body_folded(st.orelse, mi)
                yield from self._body_folded(st.finalbody, mi)
            elif isinstance(st, (ast.With, ast.For, ast.While)):
                yield from self._body_folded(st.body, mi)
            else:
                yield st

    def _index_module(self, mi):
        pkgparts = mi.name.split('.') if mi.name else []
        is_pkg = mi.relpath.endswith('__init__.py')
        for st in self._body_folded(mi.tree.body, mi):
            if isinstance(st, ast.ImportFrom):
                if st.level:
                    baseparts = pkgparts if is_pkg else pkgparts[:-1]
                    if st.level > 1:
                        baseparts = baseparts[:len(baseparts) - (st.level - 1)]
                    mod = '.'.join(baseparts + (st.module.split('.') if st.module else []))
                    for a in st.names:
                        mi.imports[a.asname or a.name] = (mod, a.name)
                else:
                    for a in st.names:
                        mi.imports[a.asname or a.name] = ('<ext>' + st.module, a.name)
            elif isinstance(st, ast.Import):
                for a in st.names:
                    mi.imports[a.asname or a.name.split('.')[0]] = ('<ext>' + a.name, None)
            elif isinstance(st, ast.Assign):
                for t in st.targets:
                    if isinstance(t, ast.Name):
                        mi.assigns[t.id] = st.value
                        mi.all_assigns.setdefault(t.id, []).append(st.value)
                        self._fold_const(mi, t.id, st.value)
                    elif isinstance(t, ast.Tuple) and isinstance(st.value, ast.Tuple) \
                            and len(t.elts) == len(st.value.elts):
                        for te, ve in zip(t.elts, st.value.elts):
                            if isinstance(te, ast.Name):
                                mi.assigns[te.id] = ve
                                mi.all_assigns.setdefault(te.id, []).append(ve)
                                self._fold_const(mi, te.id, ve)
            elif isinstance(st, ast.ClassDef):
                self._index_class(st, mi)
            elif isinstance(st, (ast.FunctionDef, ast.AsyncFunctionDef)):
                self._index_func(st, mi, None, None, (mi.name + ':' if True else '') + st.name)

    def _fold_const(self, mi, name, value):
        env = dict(_FOLD_ENV)
        env.update(mi.consts)
        names = {n.id for n in ast.walk(value) if isinstance(n, ast.Name)}
        if not names <= set(env):
            return
        for n in ast.walk(value):
            if isinstance(n, ast.Call):
                f = n.func
                if not (isinstance(f, ast.Name) and f.id in ('getattr', 'hasattr')):
                    return
            if isinstance(n, (ast.Lambda, ast.ListComp, ast.DictComp, ast.SetComp,
                              ast.GeneratorExp)):
                return
        try:
            v = eval(compile(ast.Expression(body=value), '<const>', 'eval'),
                     {'__builtins__': {}}, env)
        except Exception:
            return
        if isinstance(v, (int, float, str, bytes, bool, type(None), tuple, frozenset, set)):
            mi.consts[name] = v

    def _index_class(self, node, mi, prefix=''):
        qual = '%s:%s%s' % (mi.name, prefix, node.name)
        ci = ClassInfo(node.name, mi, node, qual)
        self.classes[qual] = ci
        for st in self._body_folded(node.body, mi):
            if isinstance(st, (ast.FunctionDef, ast.AsyncFunctionDef)):
                fi = self._index_func(st, mi, ci, None, qual + '.' + st.name)
                ci.methods[st.name] = fi
            elif isinstance(st, ast.Assign):
                for t in st.targets:
                    if isinstance(t, ast.Name):
                        ci.attrs[t.id] = st.value
            elif isinstance(st, ast.ClassDef):
                self._index_class(st, mi, prefix + node.name + '.')
        return ci

    def _index_func(self, node, mi, cls, parent, qual):
        fi = FuncInfo(node.name, mi, node, qual, cls, parent)
        self.funcs[qual] = fi
        if parent is not None:
            parent.children[node.name] = fi

        def scan(body_node):
            for n in ast.iter_child_nodes(body_node):
                if isinstance(n, (ast.FunctionDef, ast.AsyncFunctionDef)):
                    q = qual + '.' + n.name
                    # several defs of the same name in one function (the
                    # _recv variants): keep all, suffix #k from the second on
                    k = 1
                    while q in self.funcs:
                        k += 1
                        q = '%s.%s#%d' % (qual, n.name, k)
                    self._index_func(n, mi, cls, fi, q)
                elif isinstance(n, (ast.Lambda, ast.ClassDef)):
                    continue
                else:
                    scan(n)
        scan(node)
        return fi

    # ---- linking --------------------------------------------------------
    def _link(self):
        for ci in self.classes.values():
            for b in ci.base_names:
                r = self.resolve_class(b, ci.module)
                if r is not None:
                    ci.bases.append(r)

    def resolve_class(self, name, mi):
        if name is None:
            return None
        head = name.split('.')[0]
        q = '%s:%s' % (mi.name, name)
        if q in self.classes:
            return self.classes[q]
        if head in mi.imports:
            mod, orig = mi.imports[head]
            if mod.startswith('<ext>'):
                return None
            if orig is not None:
                rest = name.split('.')[1:]
                q = '%s:%s' % (mod, '.'.join([orig] + rest))
                if q in self.classes:
                    return self.classes[q]
                # imported module: from . import util -> util.X
                sub = (mod + '.' + orig) if mod else orig
                if sub in self.modules and rest:
                    q = '%s:%s' % (sub, '.'.join(rest))
                    return self.classes.get(q)
                # re-export through another module
                if mod in self.modules and orig in self.modules[mod].imports:
                    return self.resolve_class(orig, self.modules[mod])
        # module-level alias   X = Y
        if name in mi.assigns and dotted(mi.assigns[name]) and \
                dotted(mi.assigns[name]) != name:
            return self.resolve_class(dotted(mi.assigns[name]), mi)
        return None

    def mro(self, ci):
        out, seen = [], set()

        def go(c):
            if c.qual in seen:
                return
            seen.add(c.qual)
            out.append(c)
            for b in c.bases:
                go(b)
        go(ci)
        return out

    def method(self, ci, name):
        for c in self.mro(ci):
            if name in c.methods:
                return c.methods[name]
        return None

    def class_attr(self, ci, name):
        for c in self.mro(ci):
            if name in c.attrs:
                return c.attrs[name]
        return None

    def subclasses(self, ci, strict=False):
        return [c for c in self.classes.values()
                if ci in self.mro(c) and not (strict and c is ci)]

    def cls(self, qual):
        if qual not in self.classes:
            raise AnalysisError('anchor class %s not found' % qual)
        return self.classes[qual]

    def func(self, qual):
        if qual not in self.funcs:
            raise AnalysisError('anchor function %s not found' % qual)
        return self.funcs[qual]

    def has_func(self, qual):
        return qual in self.funcs

    def const(self, modname, name, _seen=None):
        """Folded value of a module-level constant (following imports)."""
        _seen = _seen or set()
        if (modname, name) in _seen or modname not in self.modules:
            raise AnalysisError('constant %s.%s unresolved' % (modname, name))
        _seen.add((modname, name))
        mi = self.modules[modname]
        if name in mi.consts:
            return mi.consts[name]
        if name in mi.imports:
            mod, orig = mi.imports[name]
            if not mod.startswith('<ext>') and orig:
                return self.const(mod, orig, _seen)
        raise AnalysisError('constant %s.%s unresolved' % (modname, name))

    def resolve_func(self, name, mi):
        """module-level function by local name (following relative imports)."""
        q = '%s:%s' % (mi.name, name)
        if q in self.funcs:
            return self.funcs[q]
        if name in mi.imports:
            mod, orig = mi.imports[name]
            if not mod.startswith('<ext>') and orig:
                if mod in self.modules:
                    return self.resolve_func(orig, self.modules[mod])
        return None

    # ---- instance attributes -------------------------------------------
    def init_attrs(self, ci, _seen=None):
        """{attr: [(value expr, unconditional?, owner class)]} for ``self.X = v``
        in ``__init__`` of the class, including base ``__init__`` when called
        (or inherited)."""
        _seen = _seen or set()
        if ci.qual in _seen:
            return {}
        _seen.add(ci.qual)
        out = {}
        init = ci.methods.get('__init__')
        if init is None:
            for b in ci.bases:
                sub = self.init_attrs(b, _seen)
                for k, v in sub.items():
                    out.setdefault(k, []).extend(v)
                if sub or self.method(b, '__init__'):
                    break
            return out
        selfname = init.params[0] if init.params else 'self'
        calls_base = []
        for n in walk_own(init.node):
            if isinstance(n, ast.Call):
                c = ast.unparse(n.func)
                if c.endswith('.__init__'):
                    calls_base.append(c)
        if calls_base:
            for b in ci.bases:
                for k, v in self.init_attrs(b, _seen).items():
                    out.setdefault(k, []).extend(v)
        top = set()
        for st in init.node.body:
            top.add(id(st))

        def sure(body):
            got = set()
            for st in body:
                if isinstance(st, ast.Assign):
                    for t in st.targets:
                        for x in ([t] if not isinstance(t, (ast.Tuple, ast.List)) else t.elts):
                            if isinstance(x, ast.Attribute) and isinstance(x.value, ast.Name) and \
                                    x.value.id == selfname:
                                got.add(x.attr)
                elif isinstance(st, ast.If) and st.orelse:
                    got |= sure(st.body) & sure(st.orelse)
                elif isinstance(st, ast.With):
                    got |= sure(st.body)
                elif isinstance(st, (ast.Return, ast.Raise)):
                    break
            return got

        def rec(body, uncond):
            for st in body:
                if isinstance(st, ast.Assign):
                    def tg(t, v):
                        if isinstance(t, ast.Attribute) and isinstance(t.value, ast.Name) \
                                and t.value.id == selfname:
                            out.setdefault(t.attr, []).append((v, uncond, ci))
                        elif isinstance(t, (ast.Tuple, ast.List)):
                            if isinstance(v, (ast.Tuple, ast.List)) and len(v.elts) == len(t.elts):
                                for a, b in zip(t.elts, v.elts):
                                    tg(a, b)
                            else:
                                for a in t.elts:
                                    tg(a, None)
                    for t in st.targets:
                        tg(t, st.value)
                elif isinstance(st, (ast.If,)):
                    rec(st.body, False)
                    rec(st.orelse, False)
                    if uncond:
                        # assigned in every arm of a complete if / elif / else: assigned
                        for a in sure(st.body) & sure(st.orelse):
                            out.setdefault(a, []).append((None, True, ci))
                elif isinstance(st, (ast.For, ast.While)):
                    rec(st.body, False)
                    rec(st.orelse, False)
                elif isinstance(st, ast.With):
                    rec(st.body, uncond)
                elif isinstance(st, ast.Try):
                    rec(st.body, False)
                    for h in st.handlers:
                        rec(h.body, False)
                    rec(st.orelse, False)
                    rec(st.finalbody, uncond)
        rec(init.node.body, True)
        return out

    def provides(self, ci, member):
        """Does every instance of ``ci`` have ``member``? (method, class attr,
        or attribute assigned unconditionally in __init__)."""
        if self.method(ci, member) is not None:
            return True
        if self.class_attr(ci, member) is not None:
            return True
        for v, uncond, owner in self.init_attrs(ci).get(member, []):
            if uncond:
                return True
        return False

    def stats(self):
        return {'files': len(self.files), 'classes': len(self.classes),
                'functions': len(self.funcs)}

    def not_analysed(self):
        out = []
        for mi in self.modules.values():
            out.extend(mi.not_analysed)
        return out
