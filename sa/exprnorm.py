"""Polynomial normal form of integer expressions over names (for layout agreement rules)."""
import ast


def poly(expr, atom=lambda e: ast.unparse(e)):
    """{monomial (sorted tuple of atom texts): coefficient}; non-arithmetic sub-expressions are atoms."""
    if isinstance(expr, ast.Constant) and isinstance(expr.value, int) and not isinstance(expr.value, bool):
        return {(): expr.value} if expr.value else {}
    if isinstance(expr, ast.UnaryOp) and isinstance(expr.op, ast.USub):
        return {k: -v for k, v in poly(expr.operand, atom).items()}
    if isinstance(expr, ast.BinOp) and isinstance(expr.op, (ast.Add, ast.Sub)):
        a, b = poly(expr.left, atom), poly(expr.right, atom)
        out = dict(a)
        for k, v in b.items():
            out[k] = out.get(k, 0) + (v if isinstance(expr.op, ast.Add) else -v)
        return {k: v for k, v in out.items() if v}
    if isinstance(expr, ast.BinOp) and isinstance(expr.op, ast.Mult):
        a, b = poly(expr.left, atom), poly(expr.right, atom)
        out = {}
        for k1, v1 in a.items():
            for k2, v2 in b.items():
                k = tuple(sorted(k1 + k2))
                out[k] = out.get(k, 0) + v1 * v2
        return {k: v for k, v in out.items() if v}
    return {(atom(expr),): 1}


def same(e1, e2, atom=lambda e: ast.unparse(e)):
    return poly(e1, atom) == poly(e2, atom)


def show(p):
    if not p:
        return '0'
    return ' + '.join(('%d*' % v if v != 1 or not k else '') + '*'.join(k) if k else str(v)
                      for k, v in sorted(p.items()))
