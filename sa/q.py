"""Query helpers shared by the rules."""
import ast
import re

from .model import walk_own, dotted, AnalysisError


def _match(pattern, text):
    if pattern is None:
        return True
    if callable(pattern):
        return bool(pattern(text))
    if isinstance(pattern, (set, frozenset, list, tuple)):
        return any(_match(p, text) for p in pattern)
    if hasattr(pattern, 'search'):
        return bool(pattern.search(text))
    return text == pattern


def calls(fi, pattern=None):
    """[(cfg node, Call)] for calls whose canonical callee matches."""
    out = []
    cfg = fi.cfg
    for n in cfg.nodes:
        if n.id not in cfg.live:
            continue
        for c in cfg.calls_at(n):
            if _match(pattern, fi.callee(c)):
                out.append((n, c))
    return out


def nodes_calling(fi, pattern):
    seen, out = set(), []
    for n, c in calls(fi, pattern):
        if n.id not in seen:
            seen.add(n.id)
            out.append(n)
    return out


def node_calls(fi, n, pattern):
    return [c for c in fi.cfg.calls_at(n) if _match(pattern, fi.callee(c))]


def assigns(fi, target_pattern):
    """CFG nodes that assign (=, augmented, del excluded) to a target whose
    canonical text matches; returns [(node, target expr, value expr or None)]."""
    out = []
    cfg = fi.cfg
    for n in cfg.nodes:
        if n.id not in cfg.live or n.kind != 'stmt':
            continue
        st = n.ast
        pairs = []
        if isinstance(st, ast.Assign):
            for t in st.targets:
                pairs.extend(_unpack(t, st.value))
        elif isinstance(st, ast.AugAssign):
            pairs.append((st.target, st))
        elif isinstance(st, ast.AnnAssign) and st.value is not None:
            pairs.append((st.target, st.value))
        for t, v in pairs:
            if _match(target_pattern, fi.canon(t)):
                out.append((n, t, v))
    return out


def _unpack(t, v):
    if isinstance(t, (ast.Tuple, ast.List)):
        if isinstance(v, (ast.Tuple, ast.List)) and len(v.elts) == len(t.elts):
            out = []
            for a, b in zip(t.elts, v.elts):
                out.extend(_unpack(a, b))
            return out
        out = []
        for a in t.elts:
            out.extend(_unpack(a, None))
        return out
    return [(t, v)]


_FLIP = {ast.NotEq: ast.Eq, ast.IsNot: ast.Is, ast.NotIn: ast.In}


def norm_guard(fi, expr, pol):
    """Normal form (text, polarity) of a branch condition.  != / is not / not in
    are rewritten to the positive operator with flipped polarity; all order
    comparisons to ``a < b`` (possibly negated, operands possibly swapped)."""
    while isinstance(expr, ast.UnaryOp) and isinstance(expr.op, ast.Not):
        expr, pol = expr.operand, not pol
    if isinstance(expr, ast.Name) and fi.assigned_names().get(expr.id) == 1 and \
            expr.id not in fi.params:
        # a local bound exactly once to the result of a call stands for that call
        for n in walk_own(fi.node):
            if isinstance(n, ast.Assign) and len(n.targets) == 1 and isinstance(n.targets[0], ast.Name) \
                    and n.targets[0].id == expr.id and isinstance(n.value, ast.Call):
                return fi.canon(n.value), pol
    if isinstance(expr, ast.Compare) and len(expr.ops) == 1:
        op = expr.ops[0]
        l, r = fi.canon(expr.left), fi.canon(expr.comparators[0])
        if isinstance(op, ast.NotEq):
            a, b = sorted([l, r])
            return '%s == %s' % (a, b), not pol
        if type(op) in _FLIP:
            return '%s %s %s' % (l, {'Eq': '==', 'Is': 'is', 'In': 'in'}[_FLIP[type(op)].__name__], r), not pol
        if isinstance(op, ast.Eq):
            a, b = sorted([l, r])
            return '%s == %s' % (a, b), pol
        if isinstance(op, ast.Lt):
            return '%s < %s' % (l, r), pol
        if isinstance(op, ast.Gt):
            return '%s < %s' % (r, l), pol
        if isinstance(op, ast.GtE):
            return '%s < %s' % (l, r), not pol
        if isinstance(op, ast.LtE):
            return '%s < %s' % (r, l), not pol
        if isinstance(op, ast.NotEq):
            a, b = sorted([l, r])
            return '%s == %s' % (a, b), not pol
    if isinstance(expr, ast.Compare) and len(expr.ops) == 1 and isinstance(expr.ops[0], ast.NotEq):
        pass
    return fi.canon(expr), pol


def guards_norm(fi, n, srcs=None):
    """set of (text, polarity) in force at CFG node n."""
    out = set()
    for (e, pol, t) in fi.cfg.guards(n, srcs):
        g = norm_guard(fi, e, pol)
        # x == y with sorted operands for NotEq too
        out.add(g)
    return out


def has_guard(fi, n, pattern, polarity, srcs=None):
    for (text, pol) in guards_norm(fi, n, srcs):
        if pol == polarity and _match(pattern, text):
            return True
    return False


def expand(fi, expr, depth=0):
    """Text of ``expr`` with every local that is assigned exactly once in fi
    (and is not a parameter) replaced by the expansion of its value."""
    import copy as _copy
    counts = fi.assigned_names()
    single = {}
    for n in walk_own(fi.node):
        if isinstance(n, ast.Assign) and len(n.targets) == 1 and isinstance(n.targets[0], ast.Name):
            nm = n.targets[0].id
            if counts.get(nm) == 1 and nm not in fi.params:
                single[nm] = n.value

    class T(ast.NodeTransformer):
        def __init__(self):
            self.depth = 0

        def visit_Name(self, node):
            if isinstance(node.ctx, ast.Load) and node.id in single and self.depth < 8:
                self.depth += 1
                out = self.visit(_copy.deepcopy(single[node.id]))
                self.depth -= 1
                return out
            return node
    e = T().visit(_copy.deepcopy(expr))
    return ast.unparse(e)


def outcome_edges(fi, pattern, polarity):
    """CFG edges (a, b, label) taken exactly when a test whose normal form
    matches ``pattern`` has the truth value ``polarity``."""
    cfg = fi.cfg
    out = set()
    for t in cfg.nodes:
        if t.kind != 'test' or t.id not in cfg.live:
            continue
        text, p = norm_guard(fi, t.ast, True)
        if _match(pattern, text):
            lab = 't' if p == polarity else 'f'
            for (b, l) in cfg.succ[t.id]:
                if l == lab:
                    out.add((t.id, b, l))
    return out


def inside(fi, n, stmts):
    """Is CFG node n's code inside one of the ast statements (lists)?"""
    target = n.ast if n.ast is not None else n.stmt
    if n.kind in ('for', 'with_enter', 'with_exit', 'except', 'loop'):
        target = n.stmt
    if target is None:
        return False
    for st in stmts:
        for x in ast.walk(st):
            if x is target:
                return True
    return False


def loop_early_exits(fi, loopnode):
    """CFG nodes inside the loop body that leave the loop other than through
    the loop head (break / return), ignoring exception edges."""
    cfg = fi.cfg
    body = {n.id for n in cfg.nodes if n.id in cfg.live and inside(fi, n, loopnode.stmt.body)}
    out = []
    for a in sorted(body):
        for (b, l) in cfg.succ[a]:
            if l != 'x' and b not in body and b != loopnode.id:
                out.append(cfg.nodes[a])
    return out


def every_iteration_passes(fi, loopnode, through, block_edges=(), completed=False):
    """In the loop headed by ``loopnode`` (for/loop kind), does every path
    from the start of the body back to the head (or out of the loop by
    break/fall) pass a ``through`` node?  Returns (ok, witness)."""
    cfg = fi.cfg
    starts = [b for (b, l) in cfg.succ[loopnode.id] if l in ('t', 'n')]
    if loopnode.kind == 'loop':
        # while: body starts behind the test chain; take every node of the body
        body = loopnode.stmt.body
        starts = [n.id for n in cfg.nodes if n.id in cfg.live and inside(fi, n, body[:1])][:1] or starts
    through = {n.id for n in through}
    body_nodes = {n.id for n in cfg.nodes if n.id in cfg.live and inside(fi, n, loopnode.stmt.body)}
    outside = {n.id for n in cfg.nodes if n.id in cfg.live} - body_nodes
    dsts = outside | {loopnode.id}
    r = cfg.reach(starts, block_nodes=through if not completed else (), block_edges=block_edges,
                  completed=through if completed else (), include_src=True, skip_labels=('x',))
    # only paths that stay inside the body until they leave
    bad = set()
    seen = set()
    todo = [s for s in starts if s not in through]
    be = set(block_edges)
    while todo:
        a = todo.pop()
        if a in seen:
            continue
        seen.add(a)
        if a in dsts:
            bad.add(a)
            continue
        for (b, l) in cfg.succ[a]:
            if l == 'x' or (a, b, l) in be:
                continue
            if b in through:
                continue
            todo.append(b)
    if bad:
        return False, cfg.path(starts, bad, block_nodes=through, block_edges=be, skip_labels=('x',))
    return True, None


def eq_text(a, b):
    x, y = sorted([a, b])
    return '%s == %s' % (x, y)


def handler_catches(handler, names):
    """Does an ast.ExceptHandler catch one of the exception class names
    (bare and BaseException catch everything; Exception catches everything
    in ``names`` except the BaseException-only ones)."""
    base_only = {'SystemExit', 'KeyboardInterrupt', 'GeneratorExit', 'BaseException'}
    if handler.type is None:
        return True
    t = handler.type
    elts = t.elts if isinstance(t, ast.Tuple) else [t]
    hn = {ast.unparse(e).split('.')[-1] for e in elts}
    if 'BaseException' in hn:
        return True
    for nm in names:
        if nm in hn:
            return True
        if 'Exception' in hn and nm not in base_only:
            return True
        if nm in ('KeyError', 'IndexError') and 'LookupError' in hn:
            return True
        if nm in ('IOError', 'EnvironmentError') and 'OSError' in hn:
            return True
        if nm == 'OSError' and hn & {'IOError', 'EnvironmentError'}:
            return True
    return False


def enclosing_trys(fi, target):
    """[(Try node, 'body'|'handler'|'orelse'|'final', handler or None)] from
    innermost to outermost for an ast node inside fi."""
    chain = []

    def rec(node, stack):
        if node is target:
            chain.extend(reversed(stack))
            return True
        if isinstance(node, (ast.FunctionDef, ast.AsyncFunctionDef, ast.Lambda, ast.ClassDef)) \
                and node is not fi.node:
            return False
        if isinstance(node, ast.Try):
            for st in node.body:
                if rec(st, stack + [(node, 'body', None)]):
                    return True
            for h in node.handlers:
                if h.type is not None and rec(h.type, stack):
                    return True
                for st in h.body:
                    if rec(st, stack + [(node, 'handler', h)]):
                        return True
            for st in node.orelse:
                if rec(st, stack + [(node, 'orelse', None)]):
                    return True
            for st in node.finalbody:
                if rec(st, stack + [(node, 'final', None)]):
                    return True
            return False
        for c in ast.iter_child_nodes(node):
            if rec(c, stack):
                return True
        return False
    rec(fi.node, [])
    return chain


def protected_by(fi, target, exc_names):
    """Is ast node ``target`` inside the body of a try (in fi) that has a
    handler catching one of exc_names?  Returns the handler or None."""
    for (tr, part, h) in enclosing_trys(fi, target):
        if part == 'body':
            for hd in tr.handlers:
                if handler_catches(hd, exc_names):
                    return hd
    return None


def contains(node, sub):
    return any(x is sub for x in ast.walk(node))


def stmt_of(fi, sub):
    """innermost statement of fi that contains ast node sub"""
    best = None
    for n in walk_own(fi.node):
        if isinstance(n, ast.stmt) and n is not fi.node and contains_own(n, sub):
            if best is None or contains_own(best, n):
                best = n
    return best


def contains_own(node, sub):
    return any(x is sub for x in walk_own(node))


def const_of(fi, expr):
    """Folded value of a Name that is a module constant (or a literal)."""
    if isinstance(expr, ast.Constant):
        return expr.value
    d = dotted(expr)
    if d and '.' not in d:
        # a local alias?
        c = fi.canon(expr)
        if c != d and '.' not in c:
            d = c
        return _model_const(fi, d)
    raise AnalysisError('not a constant: %s' % ast.unparse(expr))


def _model_const(fi, name):
    return fi.module.model.const(fi.module.name, name)


def tuple_elts(expr):
    return list(expr.elts) if isinstance(expr, (ast.Tuple, ast.List)) else None


def line(n):
    return getattr(n, 'lineno', None) or getattr(n, 'line', 0)


def need(cond, msg):
    if not cond:
        raise AnalysisError(msg)


LOGGERS = {'debug', 'info', 'warning', 'error', 'util.debug', 'util.info', 'util.sub_debug', 'sub_debug',
           'util.sub_warning', 'sub_warning'}


def logging_x_edges(fi):
    """Exception edges of nodes that do nothing but call a logging helper: a rule about what happens
    "on every way out" does not mean the way out of a failing log line."""
    cfg = fi.cfg
    out = set()
    for n in cfg.nodes:
        if n.id not in cfg.live or n.kind != 'stmt' or not isinstance(n.ast, ast.Expr):
            continue
        cs = cfg.calls_at(n)
        if cs and isinstance(n.ast.value, ast.Call) and ast.unparse(n.ast.value.func) in LOGGERS:
            for (b, l) in cfg.succ[n.id]:
                if l == 'x':
                    out.add((n.id, b, l))
    return out
