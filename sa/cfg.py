"""Statement-level control-flow graph per function, with exception edges,
per-exit-kind copies of ``finally`` bodies / ``with`` exits, short-circuit
decomposition of boolean tests, and the path queries the rules use."""
import ast

from .model import AnalysisError, fold_test, walk_own

INF = float('inf')


class Node:
    __slots__ = ('id', 'kind', 'ast', 'stmt', 'info')

    def __init__(self, id, kind, ast_=None, stmt=None, info=None):
        self.id, self.kind, self.ast, self.stmt, self.info = id, kind, ast_, stmt, info

    @property
    def line(self):
        for a in (self.ast, self.stmt):
            if a is not None and hasattr(a, 'lineno'):
                return a.lineno
        return 0

    def text(self):
        if self.kind in ('entry', 'exit', 'raise', 'join'):
            return '<%s>' % self.kind
        if self.kind == 'test':
            return 'test ' + ast.unparse(self.ast)
        if self.kind == 'for':
            return 'for %s in %s' % (ast.unparse(self.stmt.target), ast.unparse(self.stmt.iter))
        if self.kind == 'with_enter':
            return 'with ' + ', '.join(ast.unparse(i) for i in self.stmt.items)
        if self.kind == 'with_exit':
            return 'end-with ' + ', '.join(ast.unparse(i.context_expr) for i in self.stmt.items)
        if self.kind == 'except':
            return 'except ' + (ast.unparse(self.stmt.type) if self.stmt.type else '<bare>')
        if self.kind == 'loop':
            return 'loop-head'
        s = ast.unparse(self.ast) if self.ast is not None else self.kind
        return s.split('\n')[0][:100]

    def __repr__(self):
        return '<n%d %s L%d %s>' % (self.id, self.kind, self.line, self.text()[:50])


_PURE = (ast.Name, ast.Constant, ast.Attribute, ast.Tuple, ast.List, ast.Compare,
         ast.BoolOp, ast.UnaryOp, ast.IfExp, ast.expr_context, ast.boolop, ast.unaryop,
         ast.cmpop, ast.Set, ast.Dict, ast.JoinedStr, ast.FormattedValue)


def may_raise(node, attr_raises=False):
    """Can evaluating this statement/expression raise?  Conservative: anything
    beyond names, constants, attribute loads and comparisons of those can."""
    if node is None:
        return False
    if isinstance(node, (ast.Pass, ast.Break, ast.Continue, ast.Global, ast.Nonlocal,
                         ast.FunctionDef, ast.AsyncFunctionDef, ast.ClassDef)):
        return False
    if isinstance(node, (ast.Raise, ast.Assert, ast.Delete, ast.Import, ast.ImportFrom,
                         ast.AugAssign)):
        return True
    if isinstance(node, ast.Assign):
        for t in node.targets:
            if not isinstance(t, (ast.Name, ast.Attribute)):
                return True
    for n in walk_own(node):
        if isinstance(n, ast.Attribute) and attr_raises and isinstance(n.ctx, ast.Load):
            return True
        if isinstance(n, (ast.stmt,)) and n is node:
            continue
        if isinstance(n, (ast.expr, ast.expr_context, ast.boolop, ast.unaryop, ast.cmpop,
                          ast.operator)):
            if not isinstance(n, _PURE):
                return True
    return False


class _Ctx:
    __slots__ = ('brk', 'cont', 'ret', 'exc', 'attr_raises')

    def __init__(self, brk, cont, ret, exc, attr_raises=False):
        self.brk, self.cont, self.ret, self.exc = brk, cont, ret, exc
        self.attr_raises = attr_raises


def _catches_all(handler):
    if handler.type is None:
        return True
    names = _handler_names(handler)
    return 'BaseException' in names


def _handler_names(handler):
    t = handler.type
    if t is None:
        return {'<bare>'}
    elts = t.elts if isinstance(t, ast.Tuple) else [t]
    return {ast.unparse(e).split('.')[-1] for e in elts}


class CFG:
    def __init__(self, fi):
        self.fi = fi
        self.nodes = []
        self.succ = {}
        self.pred = {}
        self.entry = self._new('entry')
        self.exit = self._new('exit')
        self.raise_exit = self._new('raise')
        ctx = _Ctx(None, None, lambda: self.exit.id, lambda: [self.raise_exit.id])
        body = fi.node.body
        first = self._seq(body, self.exit.id, ctx)
        self._edge(self.entry.id, first, 'n')
        self._dom = None
        self._by_ast = {}
        for n in self.nodes:
            if n.ast is not None:
                self._by_ast.setdefault(id(n.ast), []).append(n)
            if n.stmt is not None and n.stmt is not n.ast:
                self._by_ast.setdefault(id(n.stmt), []).append(n)
        self._prune_unreachable()

    # ---- construction ---------------------------------------------------
    def _new(self, kind, ast_=None, stmt=None, info=None):
        n = Node(len(self.nodes), kind, ast_, stmt, info)
        self.nodes.append(n)
        self.succ[n.id] = []
        self.pred[n.id] = []
        return n

    def _edge(self, a, b, label):
        if b is None:
            raise AnalysisError('CFG: dangling edge in %s' % self.fi.qual)
        if (b, label) not in self.succ[a]:
            self.succ[a].append((b, label))
            self.pred[b].append((a, label))

    def _exc_edges(self, n, ctx, what=None):
        if may_raise(what if what is not None else n.ast, ctx.attr_raises):
            for t in ctx.exc():
                self._edge(n.id, t, 'x')

    def _seq(self, stmts, k, ctx):
        for st in reversed(stmts):
            k = self._stmt(st, k, ctx)
        return k

    def _cond(self, expr, t, f, ctx, stmt):
        """entry id of the short-circuit evaluation of ``expr`` jumping to t/f."""
        if isinstance(expr, ast.BoolOp):
            vals = expr.values
            if isinstance(expr.op, ast.And):
                nxt = t
                for v in reversed(vals):
                    nxt = self._cond(v, nxt, f, ctx, stmt)
                return nxt
            else:
                nxt = f
                for v in reversed(vals):
                    nxt = self._cond(v, t, nxt, ctx, stmt)
                return nxt
        if isinstance(expr, ast.UnaryOp) and isinstance(expr.op, ast.Not):
            return self._cond(expr.operand, f, t, ctx, stmt)
        n = self._new('test', expr, stmt)
        v = None
        if isinstance(expr, ast.Constant):
            v = bool(expr.value)
        else:
            v = fold_test(expr)
        if v is not False:
            self._edge(n.id, t, 't')
        if v is not True:
            self._edge(n.id, f, 'f')
        if v is not None:
            n.info = {'folded': v}
        self._exc_edges(n, ctx)
        return n.id

    def _stmt(self, st, k, ctx):
        if isinstance(st, ast.If):
            t = self._seq(st.body, k, ctx)
            f = self._seq(st.orelse, k, ctx)
            return self._cond(st.test, t, f, ctx, st)
        if isinstance(st, ast.While):
            head = self._new('loop', None, st)
            after = k
            els = self._seq(st.orelse, after, ctx)
            lctx = _Ctx(lambda: after, lambda: head.id, ctx.ret, ctx.exc, ctx.attr_raises)
            body = self._seq(st.body, head.id, lctx)
            test = self._cond(st.test, body, els, ctx, st)
            self._edge(head.id, test, 'n')
            return head.id
        if isinstance(st, (ast.For, ast.AsyncFor)):
            head = self._new('for', st.iter, st)
            after = k
            els = self._seq(st.orelse, after, ctx)
            lctx = _Ctx(lambda: after, lambda: head.id, ctx.ret, ctx.exc, ctx.attr_raises)
            body = self._seq(st.body, head.id, lctx)
            self._edge(head.id, body, 't')
            # an endless iterator (itertools.count(), cycle(), repeat(x)) is never exhausted: like `while 1`
            it = st.iter
            endless = isinstance(it, ast.Call) and ast.unparse(it.func) in (
                'itertools.count', 'count', 'itertools.cycle', 'cycle') or \
                (isinstance(it, ast.Call) and ast.unparse(it.func) in ('itertools.repeat', 'repeat') and
                 len(it.args) == 1 and not it.keywords)
            if not endless:
                self._edge(head.id, els, 'f')
            for t in ctx.exc():
                self._edge(head.id, t, 'x')
            return head.id
        if isinstance(st, ast.Try) or (hasattr(ast, 'TryStar') and isinstance(st, ast.TryStar)):
            return self._try(st, k, ctx)
        if isinstance(st, (ast.With, ast.AsyncWith)):
            return self._with(st, k, ctx)
        if isinstance(st, ast.Return):
            n = self._new('stmt', st, st)
            self._edge(n.id, ctx.ret(), 'r')
            self._exc_edges(n, ctx, st.value)
            return n.id
        if isinstance(st, ast.Raise):
            n = self._new('stmt', st, st)
            for t in ctx.exc():
                self._edge(n.id, t, 'x')
            return n.id
        if isinstance(st, ast.Break):
            n = self._new('stmt', st, st)
            if ctx.brk is None:
                raise AnalysisError('break outside loop in %s' % self.fi.qual)
            self._edge(n.id, ctx.brk(), 'b')
            return n.id
        if isinstance(st, ast.Continue):
            n = self._new('stmt', st, st)
            self._edge(n.id, ctx.cont(), 'c')
            return n.id
        if hasattr(ast, 'Match') and isinstance(st, ast.Match):
            raise AnalysisError('match statement not supported (%s)' % self.fi.qual)
        n = self._new('stmt', st, st)
        self._edge(n.id, k, 'n')
        self._exc_edges(n, ctx)
        return n.id

    def _wrap(self, make_copy, ctx):
        """Context whose abnormal exits first run a copy of a cleanup body."""
        memo = {}

        def via(kind, outer):
            def f():
                if kind not in memo:
                    memo[kind] = make_copy(outer())
                return memo[kind]
            return f

        def exc():
            if 'exc' not in memo:
                j = self._new('join', None, None, {'reraise': True})
                for t in ctx.exc():
                    self._edge(j.id, t, 'x')
                memo['exc'] = make_copy(j.id)
            return [memo['exc']]
        return _Ctx(via('brk', ctx.brk) if ctx.brk else None,
                    via('cont', ctx.cont) if ctx.cont else None,
                    via('ret', ctx.ret), exc, ctx.attr_raises)

    def _try(self, st, k, ctx):
        if st.finalbody:
            fctx = self._wrap(lambda target: self._seq(st.finalbody, target, ctx), ctx)
            after = self._seq(st.finalbody, k, ctx)
        else:
            fctx = ctx
            after = k
        handlers = []
        for h in st.handlers:
            hn = self._new('except', h.type, h)
            body = self._seq(h.body, after, fctx)
            self._edge(hn.id, body, 'n')
            handlers.append(hn)
        els = self._seq(st.orelse, after, fctx)
        catch_all = any(_catches_all(h) for h in st.handlers)
        attr = ctx.attr_raises or any(
            _handler_names(h) & {'AttributeError', 'NameError', 'Exception',
                                 'BaseException', '<bare>'}
            for h in st.handlers)

        def exc():
            out = [h.id for h in handlers]
            if not catch_all:
                out.extend(fctx.exc())
            return out
        bctx = _Ctx(fctx.brk, fctx.cont, fctx.ret, exc, attr)
        return self._seq(st.body, els, bctx)

    def _with(self, st, k, ctx):
        def mk_exit(target):
            x = self._new('with_exit', None, st)
            self._edge(x.id, target, 'n')
            return x.id
        wctx = self._wrap(mk_exit, ctx)
        body = self._seq(st.body, mk_exit(k), wctx)
        enter = self._new('with_enter', None, st)
        self._edge(enter.id, body, 'n')
        for t in ctx.exc():
            self._edge(enter.id, t, 'x')
        return enter.id

    def _prune_unreachable(self):
        live = self.reach([self.entry.id], include_src=True)
        self.live = live
        for n in self.nodes:
            if n.id not in live:
                for (b, l) in self.succ[n.id]:
                    self.pred[b] = [(a, l2) for (a, l2) in self.pred[b] if a != n.id]
                self.succ[n.id] = []

    # ---- lookups --------------------------------------------------------
    def where(self, pred, live_only=True):
        return [n for n in self.nodes if (not live_only or n.id in self.live) and pred(n)]

    def of(self, ast_node, live_only=True):
        return [n for n in self._by_ast.get(id(ast_node), [])
                if not live_only or n.id in self.live]

    def node_containing(self, sub, live_only=True):
        """CFG nodes whose evaluated AST contains ``sub`` (an ast node)."""
        out = []
        for n in self.nodes:
            if live_only and n.id not in self.live:
                continue
            for part in self.evaluated(n):
                if any(x is sub for x in walk_own(part)):
                    out.append(n)
                    break
        return out

    def evaluated(self, n):
        """AST fragments evaluated at node n."""
        if n.kind in ('stmt', 'test'):
            return [n.ast]
        if n.kind == 'for':
            return [n.stmt.iter, n.stmt.target]
        if n.kind == 'with_enter':
            out = []
            for it in n.stmt.items:
                out.append(it.context_expr)
                if it.optional_vars is not None:
                    out.append(it.optional_vars)
            return out
        if n.kind == 'except' and n.stmt.type is not None:
            return [n.stmt.type]
        return []

    def calls_at(self, n):
        out = []
        for part in self.evaluated(n):
            for x in walk_own(part):
                if isinstance(x, ast.Call):
                    out.append(x)
        return out

    # ---- reachability ---------------------------------------------------
    def reach(self, srcs, block_nodes=(), block_edges=(), skip_labels=(),
              completed=(), include_src=False, backwards=False):
        """Node ids reachable from srcs (by >=1 edge unless include_src).
        block_nodes are never entered; nodes in ``completed`` are entered but
        only their exception edges are followed (a path that leaves such a
        node through 'x' did not complete it)."""
        block_nodes = set(block_nodes)
        block_edges = set(block_edges)
        completed = set(completed)
        adj = self.pred if backwards else self.succ
        seen = set()
        todo = []

        def expand(a):
            for (b, l) in adj[a]:
                if l in skip_labels:
                    continue
                if backwards:
                    if (b, a, l) in block_edges:
                        continue
                    if b in completed and l != 'x':
                        continue
                else:
                    if (a, b, l) in block_edges:
                        continue
                    if a in completed and l != 'x':
                        continue
                if b in block_nodes or b in seen:
                    continue
                seen.add(b)
                todo.append(b)
        for s in srcs:
            if include_src:
                if s not in seen and s not in block_nodes:
                    seen.add(s)
                    todo.append(s)
            else:
                expand(s)
        while todo:
            expand(todo.pop())
        return seen

    def path(self, srcs, dsts, block_nodes=(), block_edges=(), skip_labels=(), completed=()):
        """A shortest witness path (list of Nodes) from a src to a dst avoiding
        the blocked constructs, or None."""
        block_nodes, block_edges, completed = set(block_nodes), set(block_edges), set(completed)
        dsts = set(dsts)
        prev = {}
        from collections import deque
        dq = deque()
        for s in srcs:
            prev[s] = None
            dq.append(s)
        while dq:
            a = dq.popleft()
            for (b, l) in self.succ[a]:
                if l in skip_labels or (a, b, l) in block_edges or b in block_nodes:
                    continue
                if a in completed and l != 'x' and prev[a] is not None:
                    continue
                if a in completed and l != 'x':
                    continue
                if b in prev and not (b in dsts and b in srcs and prev[b] is None):
                    continue
                if b in dsts:
                    out = [b, a]
                    while prev[out[-1]] is not None:
                        out.append(prev[out[-1]])
                    return [self.nodes[i] for i in reversed(out)]
                prev[b] = a
                dq.append(b)
        return None

    def must_pass(self, srcs, dsts, through, skip_labels=(), completed=False):
        """True iff every path from a src to a dst passes a ``through`` node.
        With completed=True a path leaving a through-node by its exception
        edge does not count as having passed it.  Returns (ok, witness)."""
        through = {n.id if isinstance(n, Node) else n for n in through}
        srcs = [n.id if isinstance(n, Node) else n for n in srcs]
        dsts = {n.id if isinstance(n, Node) else n for n in dsts}
        if completed:
            r = self.reach(srcs, completed=through, skip_labels=skip_labels)
            bad = (r & dsts) - through
            # a dst that is itself a through node is fine only when entered
            if bad:
                return False, self.path(srcs, bad, completed=through, skip_labels=skip_labels)
            return True, None
        r = self.reach(srcs, block_nodes=through, skip_labels=skip_labels)
        bad = r & dsts
        if bad:
            return False, self.path(srcs, bad, block_nodes=through, skip_labels=skip_labels)
        return True, None

    def dominated_by(self, n, through, **kw):
        """every path ENTRY -> n passes a node of ``through``"""
        return self.must_pass([self.entry], [n], through, **kw)

    def exits(self, normal_only=False):
        return [self.exit] if normal_only else [self.exit, self.raise_exit]

    # ---- guards ---------------------------------------------------------
    def guards(self, n, srcs=None):
        """[(test expr, polarity, test node)] for branch outcomes that every
        path from ENTRY (or srcs) to n takes."""
        nid = n.id if isinstance(n, Node) else n
        srcs = [self.entry.id] if srcs is None else \
            [s.id if isinstance(s, Node) else s for s in srcs]
        out = []
        for t in self.nodes:
            if t.kind != 'test' or t.id not in self.live:
                continue
            labels = {l for (_, l) in self.succ[t.id] if l in ('t', 'f')}
            for l in sorted(labels):
                edges = {(t.id, b2, l2) for (b2, l2) in self.succ[t.id] if l2 == l}
                r = self.reach(srcs, block_edges=edges, include_src=True)
                if nid not in r:
                    out.append((t.ast, l == 't', t))
        return out

    # ---- counting -------------------------------------------------------
    def count_range(self, srcs, dsts, pred, skip_labels=(), completed=False):
        """(min, max) number of times a node satisfying pred is *left* on a
        path that starts by leaving a src and ends on first reaching a dst
        (so the src counts, the dst does not).  With completed=True leaving
        through an exception edge does not count.  max is INF when a counted
        edge lies on a cycle; min treats every cycle as skippable.  None when
        no path exists."""
        srcs = [n.id if isinstance(n, Node) else n for n in srcs]
        dsts = {n.id if isinstance(n, Node) else n for n in dsts}
        V = -1
        wcache = {}

        def w(a, l):
            if a not in wcache:
                wcache[a] = bool(pred(self.nodes[a]))
            return 1 if wcache[a] and not (completed and l == 'x') else 0

        def succs(a):
            if a == V:
                out = []
                for s in srcs:
                    out.extend((b, w(s, l)) for (b, l) in self.succ[s] if l not in skip_labels)
                return out
            if a in dsts:
                return []
            return [(b, w(a, l)) for (b, l) in self.succ[a] if l not in skip_labels]
        fwd = {V}
        todo = [V]
        while todo:
            a = todo.pop()
            for b, _ in succs(a):
                if b not in fwd:
                    fwd.add(b)
                    todo.append(b)
        predm = {}
        for a in fwd:
            for b, _ in succs(a):
                predm.setdefault(b, []).append(a)
        back = set(d for d in dsts if d in fwd)
        todo = list(back)
        while todo:
            b = todo.pop()
            for a in predm.get(b, []):
                if a not in back:
                    back.add(a)
                    todo.append(a)
        sub = fwd & back
        if V not in sub:
            return None
        index, low, comp = {}, {}, {}
        stack, onstack, comps = [], set(), []
        counter = [0]
        for root in sorted(sub):
            if root in index:
                continue
            work = [(root, iter([x for x, _ in succs(root) if x in sub]))]
            index[root] = low[root] = counter[0]
            counter[0] += 1
            stack.append(root)
            onstack.add(root)
            while work:
                v, it = work[-1]
                advanced = False
                for x in it:
                    if x not in index:
                        index[x] = low[x] = counter[0]
                        counter[0] += 1
                        stack.append(x)
                        onstack.add(x)
                        work.append((x, iter([y for y, _ in succs(x) if y in sub])))
                        advanced = True
                        break
                    elif x in onstack:
                        low[v] = min(low[v], index[x])
                if advanced:
                    continue
                work.pop()
                if work:
                    u = work[-1][0]
                    low[u] = min(low[u], low[v])
                if low[v] == index[v]:
                    c = []
                    while True:
                        x = stack.pop()
                        onstack.discard(x)
                        comp[x] = len(comps)
                        c.append(x)
                        if x == v:
                            break
                    comps.append(c)
        best_min, best_max = {}, {}
        for ci, c in enumerate(comps):      # reverse topological order
            inner = 0
            mins, maxs = [], []
            for v in c:
                for x, wt in succs(v):
                    if x not in sub:
                        continue
                    if comp[x] == ci:
                        inner += wt
                    elif comp[x] in best_min:
                        mins.append(wt + best_min[comp[x]])
                        maxs.append(wt + best_max[comp[x]])
            if any(v in dsts for v in c):
                mins.append(0)
                maxs.append(0)
            if not mins:
                continue
            best_min[ci] = min(mins)
            best_max[ci] = INF if inner else max(maxs)
        if comp[V] not in best_min:
            return None
        return best_min[comp[V]], best_max[comp[V]]

    def dump(self):
        out = []
        for n in self.nodes:
            if n.id in self.live:
                out.append('%3d %-10s L%-4d %-60s -> %s' % (
                    n.id, n.kind, n.line, n.text()[:60],
                    ' '.join('%d%s' % (b, l) for b, l in self.succ[n.id])))
        return '\n'.join(out)


def build_cfg(fi):
    return CFG(fi)
