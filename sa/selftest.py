"""Checker self-test: mutants (must be reported) and twins (must stay silent).

Each rules module may define

    MUTANTS = [(name, relpath, old, new, expected_rule_or_rules), ...]
    TWINS   = [(name, relpath, old, new), ...]

``old`` must occur exactly once in the *current* source of relpath; the edit is
applied to an in-memory overlay (nothing is written to disk, nothing of
billiard is executed), the overlay must still compile, and the property's
rules are re-run on it.  A mutant whose ``old`` text no longer exists is
counted as skipped (the tree moved on), never as a pass.
"""
import importlib
import os

from .model import Model, AnalysisError
from .report import Ctx


def _apply(repo, rel, old, new):
    with open(os.path.join(repo, rel), encoding='utf-8') as f:
        src = f.read()
    if src.count(old) != 1:
        return None
    out = src.replace(old, new)
    compile(out, rel, 'exec')
    return out


def _violations(repo, prop, overlay=None):
    mod = importlib.import_module('sa.rules.' + prop.lower())
    model = Model(repo, overlay=overlay)
    ctx = Ctx(model, prop, 'quick')
    mod.run(ctx)
    ctx.check_floors()
    return {(o.rule, o.key) for o in ctx.violations()}


def _one(args):
    repo, prop, kind, item, base = args
    name, rel, old, new = item[:4]
    try:
        src = _apply(repo, rel, old, new)
    except SyntaxError as e:
        return (kind, name, 'broken', 'edit does not compile: %s' % e)
    if src is None:
        return (kind, name, 'skipped', 'anchor text not found exactly once')
    try:
        v = _violations(repo, prop, {rel: src})
    except AnalysisError as e:
        # an analysis error on a mutant counts as detection (fail closed),
        # on a twin it is a checker defect
        if kind == 'mutant':
            return (kind, name, 'detected', 'ANALYSIS-ERROR: %s' % e)
        return (kind, name, 'alarm', 'ANALYSIS-ERROR: %s' % e)
    new_v = v - base
    if kind == 'mutant':
        exp = item[4]
        exp = {exp} if isinstance(exp, str) else set(exp)
        hit = [k for k in new_v if k[0] in exp]
        if hit:
            return (kind, name, 'detected', '%s %s' % hit[0])
        if new_v:
            return (kind, name, 'missed', 'reported only %s, expected rule %s' % (sorted(new_v)[:2], sorted(exp)))
        return (kind, name, 'missed', 'no new violation, expected rule %s' % sorted(exp))
    if new_v:
        return (kind, name, 'alarm', 'twin reported %s' % sorted(new_v)[:3])
    return (kind, name, 'silent', '')


def run_selftest(prop, repo='/repo', seed=0, jobs=None):
    mod = importlib.import_module('sa.rules.' + prop.lower())
    mutants = list(getattr(mod, 'MUTANTS', []))
    twins = list(getattr(mod, 'TWINS', []))
    base = _violations(repo, prop)
    work = [(repo, prop, 'mutant', m, base) for m in mutants] + \
           [(repo, prop, 'twin', t, base) for t in twins]
    results = []
    jobs = jobs or min(16, os.cpu_count() or 1)
    if len(work) > 4 and jobs > 1:
        import multiprocessing as mp
        with mp.get_context('fork').Pool(jobs) as pool:
            results = pool.map(_one, work)
    else:
        results = [_one(w) for w in work]
    out = {'mutants_run': 0, 'mutants_detected': 0, 'mutants_skipped': 0,
           'twins_run': 0, 'twins_silent': 0, 'twins_skipped': 0,
           'failures': [], 'details': []}
    for (kind, name, verdict, detail) in results:
        out['details'].append({'kind': kind, 'name': name, 'verdict': verdict, 'detail': detail})
        if kind == 'mutant':
            if verdict == 'skipped':
                out['mutants_skipped'] += 1
                continue
            out['mutants_run'] += 1
            if verdict == 'detected':
                out['mutants_detected'] += 1
            else:
                out['failures'].append('mutant %s: %s (%s)' % (name, verdict, detail))
        else:
            if verdict == 'skipped':
                out['twins_skipped'] += 1
                continue
            out['twins_run'] += 1
            if verdict == 'silent':
                out['twins_silent'] += 1
            else:
                out['failures'].append('twin %s: %s (%s)' % (name, verdict, detail))
    return out
