"""Checker self-test: mutants (must be reported) and twins (must stay silent).

Each rules module may define

    MUTANTS = [(name, relpath, old, new, expected_rule_or_rules), ...]
    TWINS   = [(name, relpath, old, new), ...]

``old`` must occur exactly once in the *current* source of relpath; the edit is
applied to an in-memory overlay (nothing is written to disk, nothing of
billiard is executed), the overlay must still compile, and the property's
rules are re-run on it.  A mutant whose ``old`` text no longer exists is
counted as skipped (the tree moved on), never as a pass.
"""
import importlib
import os

from .model import Model, AnalysisError
from .report import Ctx


def _apply(repo, rel, old, new):
    with open(os.path.join(repo, rel), encoding='utf-8') as f:
        src = f.read()
    if src.count(old) != 1:
        return None
    out = src.replace(old, new)
    compile(out, rel, 'exec')
    return out


def _violations(repo, prop, overlay=None, follow_renames=False):
    mod = importlib.import_module('sa.rules.' + prop.lower())
    model = Model(repo, overlay=overlay)
    if overlay and follow_renames:
        from .localfp import check_local_anchors
        check_local_anchors(model, prop)
    ctx = Ctx(model, prop, 'quick')
    mod.run(ctx)
    ctx.check_floors()
    return {(o.rule, o.key) for o in ctx.violations()}


def _one(args):
    repo, prop, kind, item, base = args
    name, rel, old, new = item[:4]
    try:
        src = _apply(repo, rel, old, new)
    except SyntaxError as e:
        return (kind, name, 'broken', 'edit does not compile: %s' % e)
    if src is None:
        return (kind, name, 'skipped', 'anchor text not found exactly once')
    try:
        v = _violations(repo, prop, {rel: src})
    except AnalysisError as e:
        # an analysis error on a mutant counts as detection (fail closed),
        # on a twin it is a checker defect
        if kind == 'mutant':
            return (kind, name, 'detected', 'ANALYSIS-ERROR: %s' % e)
        return (kind, name, 'alarm', 'ANALYSIS-ERROR: %s' % e)
    new_v = v - base
    if kind == 'mutant':
        exp = item[4]
        exp = {exp} if isinstance(exp, str) else set(exp)
        hit = [k for k in new_v if k[0] in exp]
        if hit:
            return (kind, name, 'detected', '%s %s' % hit[0])
        if new_v:
            return (kind, name, 'missed', 'reported only %s, expected rule %s' % (sorted(new_v)[:2], sorted(exp)))
        return (kind, name, 'missed', 'no new violation, expected rule %s' % sorted(exp))
    if new_v:
        return (kind, name, 'alarm', 'twin reported %s' % sorted(new_v)[:3])
    return (kind, name, 'silent', '')


def _package_files(repo):
    out = []
    for dp, dn, fn in os.walk(os.path.join(repo, 'billiard')):
        dn[:] = [d for d in dn if d != '__pycache__']
        for f in fn:
            if f.endswith('.py'):
                out.append(os.path.relpath(os.path.join(dp, f), repo))
    return sorted(out)


def _anchored_locals():
    import json
    p = os.path.join(os.path.dirname(os.path.abspath(__file__)), 'rules', 'local_anchors.json')
    if not os.path.exists(p):
        return {}
    out = {}
    for key, locs in json.load(open(p)).get('anchors', {}).items():
        rel, qn = key.split('::')
        out.setdefault(rel, {})[qn] = set(locs)
    return out


def _rename_locals(src, keep):
    """Rename every function-local variable (never parameters, globals, attributes) except
    the names in keep[qualname]; nested functions follow their outermost function."""
    import ast
    tree = ast.parse(src)

    def locals_of(fn):
        params, stores, globs = set(), set(), set()
        for n in ast.walk(fn):
            if isinstance(n, (ast.FunctionDef, ast.AsyncFunctionDef, ast.Lambda)):
                a = n.args
                for x in a.posonlyargs + a.args + a.kwonlyargs:
                    params.add(x.arg)
                if a.vararg:
                    params.add(a.vararg.arg)
                if a.kwarg:
                    params.add(a.kwarg.arg)
                if not isinstance(n, ast.Lambda) and n is not fn:
                    params.add(n.name)
            elif isinstance(n, (ast.Global, ast.Nonlocal)):
                globs.update(n.names)
            elif isinstance(n, ast.Name) and isinstance(n.ctx, (ast.Store, ast.Del)):
                stores.add(n.id)
            elif isinstance(n, ast.ExceptHandler) and n.name:
                stores.add(n.name)
            elif isinstance(n, (ast.Import, ast.ImportFrom)):
                for al in n.names:
                    params.add((al.asname or al.name).split('.')[0])
            elif isinstance(n, ast.ClassDef):
                params.add(n.name)
        return {s for s in stores if s not in params and s not in globs and not s.startswith('__')}

    def rec(body, prefix):
        for st in body:
            if isinstance(st, (ast.FunctionDef, ast.AsyncFunctionDef)):
                qn = prefix + st.name
                mapping = {n: n + '_r' for n in locals_of(st) if n not in keep.get(qn, ())}
                for n in ast.walk(st):
                    if isinstance(n, ast.Name) and n.id in mapping:
                        n.id = mapping[n.id]
                    elif isinstance(n, ast.ExceptHandler) and n.name in mapping:
                        n.name = mapping[n.name]
            elif isinstance(st, ast.ClassDef):
                rec(st.body, prefix + st.name + '.')
            elif isinstance(st, (ast.If, ast.Try, ast.With)):
                rec(getattr(st, 'body', []), prefix)
                rec(getattr(st, 'orelse', []), prefix)
                for h in getattr(st, 'handlers', []):
                    rec(h.body, prefix)
                rec(getattr(st, 'finalbody', []), prefix)
    rec(tree.body, '')
    out = ast.unparse(tree)
    compile(out, '<renamed>', 'exec')
    return out


def _ast_twin(src, kind):
    """Behaviour-preserving whole-file rewrites a maintainer (or a formatter / linter autofix) could make:

    flip-if-else      if c: A else: B            ->  if not c: B else: A
    compare-spelling  a != b / a is not b / a not in b  ->  not a == b / not a is b / not a in b;
                      a > b, a >= b              ->  b < a, b <= a   (only when neither side contains a call)
    else-after-jump   if c: ...return/raise/continue/break  followed by REST (same block, no else)
                      ->  if c: ... else: REST
    """
    import ast
    tree = ast.parse(src)

    def has_call(e):
        return any(isinstance(x, (ast.Call, ast.Await, ast.Yield, ast.YieldFrom, ast.NamedExpr)) for x in ast.walk(e))

    class Flip(ast.NodeTransformer):
        def visit_If(self, node):
            self.generic_visit(node)
            if node.orelse:
                node.test, node.body, node.orelse = ast.UnaryOp(ast.Not(), node.test), node.orelse, node.body
            return node

    class Cmp(ast.NodeTransformer):
        def visit_Compare(self, node):
            self.generic_visit(node)
            if len(node.ops) != 1:
                return node
            op, a, b = node.ops[0], node.left, node.comparators[0]
            pos = {ast.NotEq: ast.Eq, ast.IsNot: ast.Is, ast.NotIn: ast.In}.get(type(op))
            if pos is not None:
                return ast.UnaryOp(ast.Not(), ast.Compare(a, [pos()], [b]))
            sw = {ast.Gt: ast.Lt, ast.GtE: ast.LtE}.get(type(op))
            if sw is not None and not has_call(a) and not has_call(b):
                return ast.Compare(b, [sw()], [a])
            return node

    def jumps(body):
        last = body[-1]
        if isinstance(last, (ast.Return, ast.Raise, ast.Continue, ast.Break)):
            return True
        if isinstance(last, ast.If) and last.orelse:
            return jumps(last.body) and jumps(last.orelse)
        return False

    def else_after_jump(body):
        for i, st in enumerate(body):
            for fld in ('body', 'orelse', 'finalbody'):
                sub = getattr(st, fld, None)
                if isinstance(sub, list) and sub and isinstance(sub[0], ast.stmt):
                    else_after_jump(sub)
            for h in getattr(st, 'handlers', []):
                else_after_jump(h.body)
            if isinstance(st, ast.If) and not st.orelse and jumps(st.body) and i + 1 < len(body):
                rest = body[i + 1:]
                # a def/class in REST would change scoping of nothing, but keep it simple: statements only
                if all(not isinstance(r, (ast.FunctionDef, ast.AsyncFunctionDef, ast.ClassDef)) for r in rest):
                    st.orelse = rest
                    del body[i + 1:]
                    else_after_jump(st.orelse)
                    return

    LOGGERS = {'debug', 'info', 'util.debug', 'util.info', 'util.sub_debug', 'sub_debug'}

    def is_log(st):
        return isinstance(st, ast.Expr) and isinstance(st.value, ast.Call) and ast.unparse(st.value.func) in LOGGERS

    def blocks(node):
        for n in ast.walk(node):
            for fld in ('body', 'orelse', 'finalbody'):
                sub = getattr(n, fld, None)
                if isinstance(sub, list) and sub and isinstance(sub[0], ast.stmt):
                    yield sub

    class SplitAnd(ast.NodeTransformer):
        def visit_If(self, node):
            self.generic_visit(node)
            if not node.orelse and isinstance(node.test, ast.BoolOp) and isinstance(node.test.op, ast.And):
                vals = node.test.values
                inner = ast.If(vals[-1], node.body, [])
                for v in reversed(vals[1:-1]):
                    inner = ast.If(v, [inner], [])
                node.test, node.body = vals[0], [inner]
            return node

    class JoinIf(ast.NodeTransformer):
        def visit_If(self, node):
            self.generic_visit(node)
            if not node.orelse and len(node.body) == 1 and isinstance(node.body[0], ast.If) and not node.body[0].orelse:
                inner = node.body[0]
                node.test = ast.BoolOp(ast.And(), [node.test, inner.test])
                node.body = inner.body
            return node

    def split_tuple_assign(body):
        out = []
        for st in body:
            if isinstance(st, ast.Assign) and len(st.targets) == 1 and isinstance(st.targets[0], ast.Tuple) and \
                    isinstance(st.value, ast.Tuple) and len(st.value.elts) == len(st.targets[0].elts) and \
                    not any(isinstance(e, ast.Starred) for e in st.targets[0].elts + st.value.elts):
                tnames = {ast.unparse(x) for t in st.targets[0].elts for x in ast.walk(t)
                          if isinstance(x, (ast.Name, ast.Attribute, ast.Subscript))}
                vnames = {ast.unparse(x) for v in st.value.elts for x in ast.walk(v)
                          if isinstance(x, (ast.Name, ast.Attribute, ast.Subscript))}
                if not (tnames & vnames) and not any(has_call(v) for v in st.value.elts):
                    out.extend(ast.Assign([t], v) for t, v in zip(st.targets[0].elts, st.value.elts))
                    continue
            out.append(st)
        body[:] = out

    class AugExpand(ast.NodeTransformer):
        # x += <number>  ->  x = x + <number>   (numbers only: for lists `+=` is in-place and not the same thing)
        def visit_AugAssign(self, node):
            if isinstance(node.value, ast.Constant) and isinstance(node.value.value, (int, float)) and \
                    not isinstance(node.value.value, bool) and isinstance(node.op, (ast.Add, ast.Sub)) and \
                    isinstance(node.target, (ast.Name, ast.Attribute)):
                import copy as _copy
                load = _copy.deepcopy(node.target)
                load.ctx = ast.Load()
                return ast.Assign([node.target], ast.BinOp(load, node.op, node.value))
            return node

    def guard_clauses(fn):
        # the last statement of a function body / loop body is `if C: BODY` without else:
        #     if not C: return (continue)
        #     BODY
        def rewrite(body, jump):
            last = body[-1] if body else None
            if isinstance(last, ast.If) and not last.orelse and len(last.body) >= 2 and \
                    not any(isinstance(x, (ast.FunctionDef, ast.ClassDef)) for x in last.body):
                body[-1:] = [ast.If(ast.UnaryOp(ast.Not(), last.test), [jump()], [])] + last.body
        for n in ast.walk(fn):
            if isinstance(n, (ast.For, ast.While)) and not n.orelse:
                rewrite(n.body, ast.Continue)
        if not any(isinstance(x, ast.Return) and x.value is not None for x in ast.walk(fn)):
            rewrite(fn.body, lambda: ast.Return(None))

    def with_to_acquire(body):
        out = []
        for st in body:
            if isinstance(st, ast.With) and len(st.items) == 1 and st.items[0].optional_vars is None and \
                    isinstance(st.items[0].context_expr, (ast.Name, ast.Attribute)) and \
                    any(k in ast.unparse(st.items[0].context_expr).lower() for k in ('lock', 'mutex', 'cond', 'notempty')):
                import copy as _copy
                x = st.items[0].context_expr
                out.append(ast.Expr(ast.Call(ast.Attribute(_copy.deepcopy(x), 'acquire', ast.Load()), [], [])))
                out.append(ast.Try(st.body, [], [], [ast.Expr(ast.Call(ast.Attribute(_copy.deepcopy(x), 'release', ast.Load()), [], []))]))
            else:
                out.append(st)
        body[:] = out

    def inline_single_use(fn, keep):
        # v = E ; <next statement reads v exactly once, in its head, and nothing else reads v>  ->  E in place of v
        import copy as _copy
        params = {a.arg for x in ast.walk(fn) if isinstance(x, ast.arguments)
                  for a in x.args + x.kwonlyargs + x.posonlyargs + [y for y in (x.vararg, x.kwarg) if y]}
        declared = {y for x in ast.walk(fn) if isinstance(x, (ast.Global, ast.Nonlocal)) for y in x.names}
        for _ in range(40):
            stores, loads = {}, {}
            for x in ast.walk(fn):
                if isinstance(x, ast.Name):
                    (loads if isinstance(x.ctx, ast.Load) else stores).setdefault(x.id, []).append(x)
                elif isinstance(x, ast.ExceptHandler) and x.name:
                    stores.setdefault(x.name, []).append(x)
            changed = False
            for b in list(blocks(fn)):
                for i in range(len(b) - 1):
                    st, nx = b[i], b[i + 1]
                    if not (isinstance(st, ast.Assign) and len(st.targets) == 1 and isinstance(st.targets[0], ast.Name)):
                        continue
                    v = st.targets[0].id
                    if v in keep or v in params or v in declared or len(stores.get(v, [])) != 1 or \
                            len(loads.get(v, [])) != 1:
                        continue
                    use = loads[v][0]
                    heads = []
                    if isinstance(nx, (ast.Expr, ast.Return, ast.Assign, ast.AugAssign)) and getattr(nx, 'value', None) is not None:
                        heads = [nx.value]
                    elif isinstance(nx, ast.If):
                        heads = [nx.test]
                    elif isinstance(nx, ast.For):
                        heads = [nx.iter]

                    def uncond(e):
                        yield e
                        if isinstance(e, (ast.Lambda, ast.ListComp, ast.SetComp, ast.DictComp, ast.GeneratorExp)):
                            return
                        if isinstance(e, ast.BoolOp):
                            yield from uncond(e.values[0])
                            return
                        if isinstance(e, ast.IfExp):
                            yield from uncond(e.test)
                            return
                        for c in ast.iter_child_nodes(e):
                            if isinstance(c, ast.expr):
                                yield from uncond(c)
                            elif isinstance(c, ast.keyword):
                                yield from uncond(c.value)
                    if not any(x is use for h in heads for x in uncond(h)):
                        continue
                    # only when the use is the first thing evaluated that can have an effect: keep it simple and
                    # require that E is the only call in the head, or that E has no call
                    e_calls = has_call(st.value)
                    others = sum(1 for h in heads for x in ast.walk(h) if isinstance(x, ast.Call))
                    if e_calls and others > 0 and not (isinstance(heads[0], ast.Call) and others == 1 and
                                                       any(a is use for a in heads[0].args)):
                        continue

                    class R(ast.NodeTransformer):
                        def visit_Name(self, node):
                            return _copy.deepcopy(st.value) if node is use else node
                    R().visit(nx)
                    del b[i]
                    changed = True
                    break
                if changed:
                    break
            if not changed:
                break

    def comp_to_loop(body):
        # x = [E for T in IT if C]  ->  x = []; for T in IT: if C: x.append(E)      (one generator, x a plain name
        # that the comprehension does not read)
        out = []
        for st in body:
            if isinstance(st, ast.Assign) and len(st.targets) == 1 and isinstance(st.targets[0], ast.Name) and \
                    isinstance(st.value, ast.ListComp) and len(st.value.generators) == 1 and \
                    not st.value.generators[0].is_async and \
                    st.targets[0].id not in {x.id for x in ast.walk(st.value) if isinstance(x, ast.Name)}:
                g = st.value.generators[0]
                x = st.targets[0].id
                app = ast.Expr(ast.Call(ast.Attribute(ast.Name(x, ast.Load()), 'append', ast.Load()), [st.value.elt], []))
                inner = [app]
                for c in reversed(g.ifs):
                    inner = [ast.If(c, inner, [])]
                out.append(ast.Assign([ast.Name(x, ast.Store())], ast.List([], ast.Load())))
                out.append(ast.For(g.target, g.iter, inner, []))
            else:
                out.append(st)
        body[:] = out

    def lambda_to_def(body):
        out = []
        for st in body:
            if isinstance(st, ast.Assign) and len(st.targets) == 1 and isinstance(st.targets[0], ast.Name) and \
                    isinstance(st.value, ast.Lambda):
                out.append(ast.FunctionDef(st.targets[0].id, st.value.args, [ast.Return(st.value.body)], [], None,
                                           None, []))
            else:
                out.append(st)
        body[:] = out

    def unpack_to_index(body):
        # a, b, c = E  (E a plain name)  ->  a = E[0]; b = E[1]; c = E[2]
        out = []
        for st in body:
            if isinstance(st, ast.Assign) and len(st.targets) == 1 and isinstance(st.targets[0], ast.Tuple) and \
                    isinstance(st.value, ast.Name) and len(st.targets[0].elts) >= 2 and \
                    all(isinstance(e, ast.Name) for e in st.targets[0].elts) and \
                    st.value.id not in {e.id for e in st.targets[0].elts}:
                for k, e in enumerate(st.targets[0].elts):
                    out.append(ast.Assign([e], ast.Subscript(ast.Name(st.value.id, ast.Load()), ast.Constant(k), ast.Load())))
            else:
                out.append(st)
        body[:] = out

    class Small(ast.NodeTransformer):
        # a bundle of one-token respellings
        def visit_While(self, node):
            self.generic_visit(node)
            if isinstance(node.test, ast.Constant) and node.test.value == 1 and node.test.value is not True:
                node.test = ast.Constant(True)
            elif isinstance(node.test, ast.Constant) and node.test.value is True:
                node.test = ast.Constant(1)
            return node

        def visit_Return(self, node):
            self.generic_visit(node)
            if node.value is None:
                node.value = ast.Constant(None)
            elif isinstance(node.value, ast.Constant) and node.value.value is None:
                node.value = None
            return node

        def visit_If(self, node):
            self.generic_visit(node)
            if len(node.orelse) == 1 and isinstance(node.orelse[0], ast.Pass):
                node.orelse = []
            return node

        def visit_Delete(self, node):
            if len(node.targets) > 1:
                return [ast.Delete([t]) for t in node.targets]
            return node

        def visit_Compare(self, node):
            self.generic_visit(node)
            if len(node.ops) == 1 and isinstance(node.ops[0], (ast.Eq, ast.NotEq)) and \
                    not has_call(node.left) and not has_call(node.comparators[0]):
                node.left, node.comparators = node.comparators[0], [node.left]
            return node

    class DeMorgan(ast.NodeTransformer):
        def visit_UnaryOp(self, node):
            self.generic_visit(node)
            if isinstance(node.op, ast.Not) and isinstance(node.operand, ast.BoolOp):
                op = ast.And() if isinstance(node.operand.op, ast.Or) else ast.Or()
                return ast.BoolOp(op, [ast.UnaryOp(ast.Not(), v) for v in node.operand.values])
            return node

    class Small2(ast.NodeTransformer):
        # the reverse of normalize.small_forms
        def visit_Try(self, node):
            self.generic_visit(node)
            if len(node.handlers) == 1 and not node.orelse and not node.finalbody and node.handlers[0].type is not None \
                    and node.handlers[0].name is None and len(node.handlers[0].body) == 1 and \
                    isinstance(node.handlers[0].body[0], ast.Pass) and 'contextlib' in imported:
                t = node.handlers[0].type
                args = list(t.elts) if isinstance(t, ast.Tuple) else [t]
                call = ast.Call(ast.Attribute(ast.Name('contextlib', ast.Load()), 'suppress', ast.Load()), args, [])
                return ast.With([ast.withitem(call, None)], node.body)
            return node

        def visit_For(self, node):
            self.generic_visit(node)
            if isinstance(node.iter, ast.Attribute) and node.iter.attr in ('_cache', 'cache', '_poolctrl', 'id_to_obj'):
                node.iter = ast.Call(ast.Attribute(node.iter, 'keys', ast.Load()), [], [])
            return node

        def visit_Call(self, node):
            self.generic_visit(node)
            if isinstance(node.func, ast.Name) and node.func.id == 'isinstance' and len(node.args) == 2 and \
                    isinstance(node.args[1], ast.Tuple) and len(node.args[1].elts) >= 2 and not has_call(node.args[0]):
                import copy as _copy
                return ast.BoolOp(ast.Or(), [ast.Call(ast.Name('isinstance', ast.Load()), [_copy.deepcopy(node.args[0]), t], [])
                                             for t in node.args[1].elts])
            return node

        def visit_Delete(self, node):
            if len(node.targets) == 1 and isinstance(node.targets[0], ast.Subscript) and \
                    isinstance(node.targets[0].value, (ast.Name, ast.Attribute)) and \
                    not isinstance(node.targets[0].slice, (ast.Slice, ast.Tuple)):
                t = node.targets[0]
                return ast.Expr(ast.Call(ast.Attribute(t.value, 'pop', ast.Load()), [t.slice], []))
            return node

    def kwargs_at_call_sites(cls):
        # self.m(a, b) -> self.m(p1=a, p2=b) for methods of the same class with plain positional parameters
        sig = {}
        for m_ in cls.body:
            if isinstance(m_, ast.FunctionDef) and not m_.decorator_list and not m_.args.vararg and not m_.args.posonlyargs:
                sig[m_.name] = [a.arg for a in m_.args.args][1:]
        for n in ast.walk(cls):
            if isinstance(n, ast.Call) and isinstance(n.func, ast.Attribute) and isinstance(n.func.value, ast.Name) and \
                    n.func.value.id == 'self' and n.func.attr in sig and n.args and \
                    not any(isinstance(a, ast.Starred) for a in n.args) and len(n.args) <= len(sig[n.func.attr]) and \
                    not any(k.arg is None for k in n.keywords):
                names = sig[n.func.attr][:len(n.args)]
                if not set(names) & {k.arg for k in n.keywords}:
                    n.keywords = [ast.keyword(p_, a) for p_, a in zip(names, n.args)] + n.keywords
                    n.args = []

    def reorder_methods(cls):
        # reverse every run of consecutive undecorated methods (nothing at class level can depend on their order)
        i = 0
        body = cls.body
        while i < len(body):
            j = i
            while j < len(body) and isinstance(body[j], ast.FunctionDef) and not body[j].decorator_list:
                j += 1
            if j - i >= 2:
                body[i:j] = list(reversed(body[i:j]))
            i = max(j, i + 1)

    imported = {al.name for n in tree.body if isinstance(n, ast.Import) for al in n.names}
    if kind == 'auto-small-forms-reversed':
        tree = Small2().visit(tree)
    elif kind == 'auto-kwargs-at-call-sites':
        for n in tree.body:
            if isinstance(n, ast.ClassDef):
                kwargs_at_call_sites(n)
        # ... and constructor / function calls of this module: f(a, b) -> f(p1=a, p2=b)
        sigs = {}
        for n in tree.body:
            if isinstance(n, ast.FunctionDef) and not n.decorator_list and not n.args.vararg and not n.args.posonlyargs:
                sigs[n.name] = [a.arg for a in n.args.args]
            elif isinstance(n, ast.ClassDef):
                for m_ in n.body:
                    if isinstance(m_, ast.FunctionDef) and m_.name == '__init__' and not m_.args.vararg and \
                            not m_.args.posonlyargs:
                        sigs[n.name] = [a.arg for a in m_.args.args][1:]
        for c in ast.walk(tree):
            if isinstance(c, ast.Call) and isinstance(c.func, ast.Name) and c.func.id in sigs and c.args and \
                    not any(isinstance(a, ast.Starred) for a in c.args) and len(c.args) <= len(sigs[c.func.id]) and \
                    not any(k.arg is None for k in c.keywords):
                names = sigs[c.func.id][:len(c.args)]
                if not set(names) & {k.arg for k in c.keywords}:
                    c.keywords = [ast.keyword(p_, a) for p_, a in zip(names, c.args)] + c.keywords
                    c.args = []
    elif kind == 'auto-reorder-methods':
        for n in ast.walk(tree):
            if isinstance(n, ast.ClassDef):
                reorder_methods(n)
    if kind == 'auto-small-respellings':
        tree = Small().visit(tree)
    elif kind == 'auto-de-morgan':
        tree = DeMorgan().visit(tree)
    if kind == 'auto-comp-to-loop':
        for n in ast.walk(tree):
            if isinstance(n, (ast.FunctionDef, ast.AsyncFunctionDef)):
                for b in list(blocks(n)):
                    comp_to_loop(b)
    elif kind == 'auto-lambda-to-def':
        for n in ast.walk(tree):
            if isinstance(n, (ast.FunctionDef, ast.AsyncFunctionDef)):
                for b in list(blocks(n)):
                    lambda_to_def(b)
    elif kind == 'auto-unpack-to-index':
        for n in ast.walk(tree):
            if isinstance(n, (ast.FunctionDef, ast.AsyncFunctionDef)):
                for b in list(blocks(n)):
                    unpack_to_index(b)
    if kind == 'auto-guard-clause':
        for n in ast.walk(tree):
            if isinstance(n, (ast.FunctionDef, ast.AsyncFunctionDef)):
                guard_clauses(n)
    elif kind == 'auto-with-to-acquire':
        for b in list(blocks(tree)):
            with_to_acquire(b)
    elif kind == 'auto-inline-single-use':
        anchored = _anchored_locals()
        allk = set()
        for rel_, fns in anchored.items():
            for qn, names in fns.items():
                allk |= set(names)
        for n in tree.body:
            for f in ([n] if isinstance(n, ast.FunctionDef) else
                      [m_ for m_ in n.body if isinstance(m_, ast.FunctionDef)] if isinstance(n, ast.ClassDef) else []):
                inline_single_use(f, set())
    if kind == 'auto-augassign-expanded':
        tree = AugExpand().visit(tree)
    if kind == 'auto-split-and':
        tree = SplitAnd().visit(tree)
    elif kind == 'auto-join-nested-if':
        tree = JoinIf().visit(tree)
    elif kind == 'auto-tuple-assign-split':
        for b in list(blocks(tree)):
            split_tuple_assign(b)
    elif kind == 'auto-strip-logging':
        for b in list(blocks(tree)):
            kept = [st for st in b if not is_log(st)]
            b[:] = kept or [ast.Pass()]
    elif kind == 'auto-log-at-entry':
        bound = {(al.asname or al.name) for n in tree.body if isinstance(n, ast.ImportFrom) for al in n.names}
        if 'debug' in bound:
            for n in ast.walk(tree):
                if isinstance(n, (ast.FunctionDef, ast.AsyncFunctionDef)) and n.name != 'debug':
                    i = 1 if (n.body and isinstance(n.body[0], ast.Expr) and isinstance(n.body[0].value, ast.Constant)
                              and isinstance(n.body[0].value.value, str)) else 0
                    n.body.insert(i, ast.Expr(ast.Call(ast.Name('debug', ast.Load()),
                                                       [ast.Constant('enter %s' % n.name)], [])))
    if kind == 'auto-flip-if-else':
        tree = Flip().visit(tree)
    elif kind == 'auto-compare-spelling':
        tree = Cmp().visit(tree)
    elif kind == 'auto-else-after-jump':
        for n in ast.walk(tree):
            if isinstance(n, (ast.FunctionDef, ast.AsyncFunctionDef)):
                else_after_jump(n.body)
    ast.fix_missing_locations(tree)
    out = ast.unparse(tree)
    compile(out, '<twin>', 'exec')
    return out


AUTO_TWINS = ('auto-reformat', 'auto-rename-locals', 'auto-flip-if-else', 'auto-compare-spelling',
              'auto-else-after-jump', 'auto-split-and', 'auto-join-nested-if', 'auto-tuple-assign-split',
              'auto-strip-logging', 'auto-log-at-entry', 'auto-augassign-expanded', 'auto-guard-clause',
              'auto-with-to-acquire', 'auto-inline-single-use', 'auto-comp-to-loop', 'auto-lambda-to-def',
              'auto-unpack-to-index', 'auto-small-respellings', 'auto-de-morgan', 'auto-small-forms-reversed',
              'auto-kwargs-at-call-sites', 'auto-reorder-methods')


def _auto_twin(args):
    """whole-package twins: 'reformat' (ast.unparse of every file: comments, layout, quotes and
    parentheses change) and 'rename-locals' (every local not listed as an anchor is renamed)."""
    import ast
    repo, prop, name, base = args
    try:
        overlay = {}
        anchored = _anchored_locals()
        for rel in _package_files(repo):
            with open(os.path.join(repo, rel), encoding='utf-8') as f:
                src = f.read()
            if name == 'auto-reformat':
                overlay[rel] = ast.unparse(ast.parse(src))
            elif name != 'auto-rename-locals':
                overlay[rel] = _ast_twin(src, name)
            else:
                overlay[rel] = _rename_locals(src, anchored.get(rel, {}))
        v = _violations(repo, prop, overlay)
    except AnalysisError as e:
        return ('twin', name, 'alarm', 'ANALYSIS-ERROR: %s' % e)
    except SyntaxError as e:
        return ('twin', name, 'broken', str(e))
    new_v = v - base
    if new_v:
        return ('twin', name, 'alarm', 'twin reported %s' % sorted(new_v)[:3])
    return ('twin', name, 'silent', '')


def apply_unified(repo, patch_text):
    """apply a unified diff to the files under repo, in memory: {relpath: new source}, or None when a hunk does not
    find its lines (the tree moved on)"""
    import re
    out = {}
    files = re.split(r'^diff --git .*$', patch_text, flags=re.M)[1:]
    for sec in files:
        m = re.search(r'^\+\+\+ b/(\S+)', sec, flags=re.M)
        if not m:
            return None
        rel = m.group(1)
        path = os.path.join(repo, rel)
        if rel in out:
            lines = out[rel].split('\n')
        elif os.path.exists(path):
            with open(path, encoding='utf-8') as f:
                lines = f.read().split('\n')
        else:
            lines = ['']
        hunks = re.split(r'^@@ .*$', sec, flags=re.M)[1:]
        heads = re.findall(r'^@@ -(\d+)(?:,\d+)? \+\d+(?:,\d+)? @@', sec, flags=re.M)
        shift = 0
        for head, h in zip(heads, hunks):
            body = h.split('\n')[1:]
            while body and body[-1] == '':
                body.pop()
            olds = [l[1:] for l in body if l[:1] in (' ', '-')]
            news = [l[1:] for l in body if l[:1] in (' ', '+')]
            at = int(head) - 1 + shift
            cands = [i for i in range(len(lines) - len(olds) + 1) if lines[i:i + len(olds)] == olds]
            if not cands:
                return None
            i = min(cands, key=lambda c: abs(c - at))
            lines[i:i + len(olds)] = news
            shift += len(news) - len(olds)
        out[rel] = '\n'.join(lines)
    return out


def benign_patches():
    d = os.path.join(os.path.dirname(os.path.dirname(os.path.abspath(__file__))), 'benign')
    if not os.path.isdir(d):
        return []
    return sorted(os.path.join(d, x, 'patch.diff') for x in os.listdir(d)
                  if os.path.exists(os.path.join(d, x, 'patch.diff')))


def _benign_twin(args):
    """a stored behaviour-preserving patch (benign/<id>/patch.diff, written by an independent sub-agent, DESIGN
    section 18) applied in memory: the property's rules must report nothing they do not report without it"""
    repo, prop, path, base = args
    name = 'benign-' + os.path.basename(os.path.dirname(path))
    try:
        with open(path, encoding='utf-8') as f:
            overlay = apply_unified(repo, f.read())
        if overlay is None:
            return ('twin', name, 'skipped', 'patch does not apply to this tree')
        for rel, src in overlay.items():
            compile(src, rel, 'exec')
        v = _violations(repo, prop, overlay, follow_renames=True)
    except AnalysisError as e:
        return ('twin', name, 'alarm', 'ANALYSIS-ERROR: %s' % e)
    except SyntaxError as e:
        return ('twin', name, 'skipped', 'patched file does not compile: %s' % e)
    new_v = v - base
    if new_v:
        return ('twin', name, 'alarm', 'twin reported %s' % sorted(new_v)[:3])
    return ('twin', name, 'silent', '')


def run_selftest(prop, repo='/repo', seed=0, jobs=None):
    mod = importlib.import_module('sa.rules.' + prop.lower())
    mutants = list(getattr(mod, 'MUTANTS', []))
    twins = list(getattr(mod, 'TWINS', []))
    base = _violations(repo, prop)
    work = [(repo, prop, 'mutant', m, base) for m in mutants] + \
           [(repo, prop, 'twin', t, base) for t in twins]
    auto = [(repo, prop, name, base) for name in AUTO_TWINS]
    benign = [(repo, prop, p, base) for p in benign_patches()]
    results = []
    jobs = jobs or min(16, os.cpu_count() or 1)
    if len(work) > 4 and jobs > 1:
        import multiprocessing as mp
        with mp.get_context('fork').Pool(jobs) as pool:
            ra = pool.map_async(_auto_twin, auto)
            rb = pool.map_async(_benign_twin, benign)
            results = pool.map(_one, work)
            results += ra.get()
            results += rb.get()
    else:
        results = [_one(w) for w in work] + [_auto_twin(a) for a in auto] + [_benign_twin(b) for b in benign]
    out = {'mutants_run': 0, 'mutants_detected': 0, 'mutants_skipped': 0,
           'twins_run': 0, 'twins_silent': 0, 'twins_skipped': 0,
           'failures': [], 'details': []}
    for (kind, name, verdict, detail) in results:
        out['details'].append({'kind': kind, 'name': name, 'verdict': verdict, 'detail': detail})
        if kind == 'mutant':
            if verdict == 'skipped':
                out['mutants_skipped'] += 1
                continue
            out['mutants_run'] += 1
            if verdict == 'detected':
                out['mutants_detected'] += 1
            else:
                out['failures'].append('mutant %s: %s (%s)' % (name, verdict, detail))
        else:
            if verdict == 'skipped':
                out['twins_skipped'] += 1
                continue
            out['twins_run'] += 1
            if verdict == 'silent':
                out['twins_silent'] += 1
            else:
                out['failures'].append('twin %s: %s (%s)' % (name, verdict, detail))
    return out
