"""Abstract tuple shapes and roles, flow-insensitive per function.

Values:  ('tup', (v, ...)) | ('role', name) | ('const', value) | ('tag', NAME)
         | ('seq', elem) | ('cache',) | ('unk',) | ('alt', frozenset(values))
"""
import ast

from .model import walk_own, dotted

UNK = ('unk',)
CACHE = ('cache',)
EMPTY = ('alt', frozenset())


def role(name):
    return ('role', name)


def alts(v):
    if v[0] == 'alt':
        out = set()
        for x in v[1]:
            out |= alts(x)
        return out
    return {v}


def join(*vs):
    s = set()
    for v in vs:
        s |= alts(v)
    if len(s) == 1:
        return next(iter(s))
    return ('alt', frozenset(s))


def show(v):
    k = v[0]
    if k == 'tup':
        return '(' + ', '.join(show(x) for x in v[1]) + ')'
    if k == 'role':
        return '<%s>' % v[1]
    if k == 'const':
        return repr(v[1])
    if k == 'tag':
        return v[1]
    if k == 'seq':
        return 'seq[%s]' % show(v[1])
    if k == 'alt':
        return ' | '.join(sorted(show(x) for x in v[1])) or '<nothing>'
    return k


class Shapes:
    def __init__(self, fi, tags, is_cache, seeds=None, outer=None, queue_item=None):
        """fi: function; tags: protocol tag names; is_cache(fi, expr) -> bool;
        seeds: {name: value}; outer: Shapes of the enclosing function;
        queue_item: value yielded by iterating iter(<taskqueue>.get, None)"""
        self.fi, self.tags, self.is_cache = fi, set(tags), is_cache
        self.env = dict(seeds or {})
        self.seeds = dict(seeds or {})
        self.outer = outer
        self.queue_item = queue_item
        for _ in range(8):
            before = dict(self.env)
            self._pass()
            if self.env == before:
                break

    # ---- environment -----------------------------------------------------
    def _bind(self, name, v):
        if name in self.env:
            self.env[name] = join(self.env[name], v)
        else:
            self.env[name] = v

    def _bind_target(self, t, v, env=None):
        if isinstance(t, ast.Name):
            if env is not None:
                env[t.id] = join(env[t.id], v) if t.id in env else v
            else:
                self._bind(t.id, v)
        elif isinstance(t, (ast.Tuple, ast.List)):
            n = len(t.elts)
            parts = [EMPTY] * n
            for a in alts(v):
                if a[0] == 'tup' and len(a[1]) == n:
                    parts = [join(p, x) for p, x in zip(parts, a[1])]
                elif a[0] == 'const' and a[1] is None:
                    continue
                else:
                    parts = [join(p, UNK) for p in parts]
            for te, pv in zip(t.elts, parts):
                self._bind_target(te, pv, env)

    def _pass(self):
        fi = self.fi
        for n in walk_own(fi.node):
            if isinstance(n, ast.Assign):
                v = self.eval(n.value)
                for t in n.targets:
                    self._bind_target(t, v)
            elif isinstance(n, ast.AugAssign) and isinstance(n.target, ast.Name):
                self._bind(n.target.id, UNK)
            elif isinstance(n, (ast.For, ast.AsyncFor)):
                self._bind_target(n.target, self.elem(self.eval(n.iter), n.iter))
            elif isinstance(n, ast.Call) and isinstance(n.func, ast.Attribute) and \
                    n.func.attr == 'add' and isinstance(n.func.value, ast.Name) and len(n.args) == 1:
                self._bind(n.func.value.id, ('seq', self.eval(n.args[0])))
            elif isinstance(n, ast.ExceptHandler) and n.name:
                self._bind(n.name, UNK)

    def lookup(self, name, env=None):
        if env is not None and name in env:
            return env[name]
        if name in self.env:
            return self.env[name]
        if name in self.tags:
            return ('tag', name)
        if name in self.fi.assigned_names() and name not in self.fi.params:
            return EMPTY          # assigned in this function, no value seen yet (bottom)
        if name in self.fi.params:
            return UNK
        if self.outer is not None:
            return self.outer.lookup(name)
        return UNK

    # ---- evaluation ------------------------------------------------------
    def elem(self, v, expr=None):
        out = EMPTY
        for a in alts(v):
            if a[0] == 'seq':
                out = join(out, a[1])
            elif a[0] == 'cache':
                out = join(out, role('job-id'))
            elif a[0] == 'queue':
                out = join(out, self.queue_item or UNK)
            else:
                out = join(out, UNK)
        return out

    def eval(self, e, env=None):
        fi = self.fi
        if isinstance(e, ast.Constant):
            return ('const', e.value)
        if isinstance(e, ast.Name):
            if not (env and e.id in env) and e.id not in self.env and self.is_cache(fi, e):
                return CACHE
            return self.lookup(e.id, env)
        if isinstance(e, ast.Tuple):
            return ('tup', tuple(self.eval(x, env) for x in e.elts))
        if isinstance(e, ast.IfExp):
            return join(self.eval(e.body, env), self.eval(e.orelse, env))
        if isinstance(e, ast.BoolOp):
            return join(*[self.eval(x, env) for x in e.values])
        if isinstance(e, ast.Attribute):
            if e.attr == '_job':
                return role('job-id')
            if self.is_cache(fi, e):
                return CACHE
            return UNK
        if isinstance(e, ast.Subscript):
            base = self.eval(e.value, env)
            out = EMPTY
            for a in alts(base):
                if a[0] == 'const' and a[1] is None:
                    continue          # None[...] raises: not a value
                if a[0] == 'tup':
                    s = e.slice
                    if isinstance(s, ast.Constant) and isinstance(s.value, int):
                        try:
                            out = join(out, a[1][s.value])
                        except IndexError:
                            pass
                        continue
                    if isinstance(s, ast.Slice) and s.step is None and \
                            all(b is None or (isinstance(b, ast.Constant) and isinstance(b.value, int))
                                for b in (s.lower, s.upper)):
                        lo = s.lower.value if s.lower else None
                        hi = s.upper.value if s.upper else None
                        out = join(out, ('tup', tuple(a[1][lo:hi])))
                        continue
                if a[0] == 'cache':
                    out = join(out, role('entry'))
                    continue
                out = join(out, UNK)
            return out
        if isinstance(e, ast.BinOp):
            l = self.eval(e.left, env)
            if l == role('part') or l == role('enum') or not alts(l):
                return l
            return UNK
        if isinstance(e, ast.Call):
            c = fi.callee(e)
            if c == 'next' and e.args and fi.canon(e.args[0]) == 'job_counter':
                return role('job-id')
            if c == 'enumerate' and e.args:
                return ('seq', ('tup', (role('enum'), self.elem(self.eval(e.args[0], env)))))
            if c in ('copy.copy', 'dict', 'list') and e.args:
                return self.eval(e.args[0], env)
            if c == 'set' and not e.args:
                return ('seq', EMPTY)
            if c == 'set' and e.args:
                return self.eval(e.args[0], env)
            if c == 'iter' and len(e.args) == 2 and self.queue_item is not None and \
                    fi.canon(e.args[0]).endswith('.get'):
                return ('queue',)
            if isinstance(e.func, ast.Attribute) and e.func.attr in ('items', 'values', 'keys'):
                b = self.eval(e.func.value, env)
                if not alts(b):
                    return EMPTY
                if b == CACHE:
                    if e.func.attr == 'items':
                        return ('seq', ('tup', (role('job-id'), role('entry'))))
                    if e.func.attr == 'values':
                        return ('seq', role('entry'))
                    return ('seq', role('job-id'))
            if isinstance(e.func, ast.Attribute) and e.func.attr in ('get', 'pop') and \
                    self.eval(e.func.value, env) == CACHE:
                return role('entry')
            return UNK
        if isinstance(e, ast.DictComp):
            # {k: v for k, v in <cache>.items() if ...}: a filtered copy of the cache is a cache
            lenv = dict(env or {})
            for g in e.generators:
                self._bind_target(g.target, self.elem(self.eval(g.iter, lenv)), lenv)
            if self.eval(e.key, lenv) == role('job-id') and self.eval(e.value, lenv) == role('entry'):
                return CACHE
            return UNK
        if isinstance(e, (ast.GeneratorExp, ast.ListComp, ast.SetComp)):
            lenv = dict(env or {})
            for g in e.generators:
                self._bind_target(g.target, self.elem(self.eval(g.iter, lenv)), lenv)
            return ('seq', self.eval(e.elt, lenv))
        return UNK

    def comp_env(self, comp, env=None):
        """environment inside a comprehension (for keys used in its ifs/elt)"""
        lenv = dict(env or {})
        for g in comp.generators:
            self._bind_target(g.target, self.elem(self.eval(g.iter, lenv)), lenv)
        return lenv
