"""Undo "extract helper" refactorings before the rules look at the code.

A private function or method that did not exist on the reference tree (its qualified name is not in the list recorded
in rules/reference_names.json) is a new helper.  It is inlined at its call sites inside the same module (functions)
or class (methods, `self.helper(...)`, staticmethods too):

  * a helper whose body is one `return <expr>` is replaced by that expression wherever it is called;
  * a call that is the whole value of an expression statement, an assignment or a return is replaced by the helper's
    body, returns rewritten into assignments (the body is first brought into a form in which every return is in tail
    position of an if-chain; a helper that returns from inside a loop, try or with is left alone);
  * a call in the head of a statement (`for x in helper():`, `if helper():`, `y = f(helper())`, not `while`) to a
    helper with one final return is replaced by the returned expression, the rest of the body put before the statement.

Parameters are replaced by the argument expressions when these are names, attributes of names or constants, or when
the parameter is read once; otherwise they are bound to a local first, which takes the parameter's name unless the
caller already uses that name.  The helper's own locals keep their names unless the caller uses them (lines moved
verbatim into a helper used the caller's names: this restores them).  Statements take the position of the call, so
reports point at the call site.  A helper nobody refers to any more is dropped.  The effect: rules written for the
reference structure also read code in which lines were moved into a new helper -- and see through a new helper that
hides something."""
import ast
import copy

SUFFIX = '__inl'
MAX_BODY = 60


def _simple(e):
    if isinstance(e, (ast.Name, ast.Constant)):
        return True
    if isinstance(e, ast.Attribute):
        return _simple(e.value)
    if isinstance(e, ast.Tuple):
        return all(_simple(x) for x in e.elts)
    return False


def _strip_doc(body):
    return [s for s in body if not (isinstance(s, ast.Expr) and isinstance(s.value, ast.Constant))]


def _has_return(s):
    return any(isinstance(n, ast.Return) for n in ast.walk(s))


def _tailify(stmts):
    """the same statements with every return in tail position of an if-chain; None when a return sits elsewhere"""
    out = []
    for i, s in enumerate(stmts):
        if isinstance(s, ast.Return):
            return out + [s]
        if _has_return(s):
            if not isinstance(s, ast.If):
                return None
            rest = stmts[i + 1:]
            b = _tailify(list(s.body) + copy.deepcopy(rest))
            o = _tailify(list(s.orelse) + copy.deepcopy(rest))
            if b is None or o is None:
                return None
            new = ast.If(s.test, b or [ast.Pass()], o)
            return out + [ast.copy_location(new, s)]
        out.append(s)
    return out


def _count(stmts):
    return sum(1 for s in stmts for n in ast.walk(s) if isinstance(n, ast.stmt))


def _is_static(fn):
    return any(isinstance(d, ast.Name) and d.id == 'staticmethod' for d in fn.decorator_list)


def _eligible(fn):
    if not fn.name.startswith('_') or (fn.name.startswith('__') and fn.name.endswith('__')):
        return False
    if fn.decorator_list and not (len(fn.decorator_list) == 1 and _is_static(fn)):
        return False
    a = fn.args
    if a.vararg or a.kwarg or a.kwonlyargs or a.posonlyargs:
        return False
    for n in ast.walk(fn):
        if isinstance(n, (ast.Yield, ast.YieldFrom, ast.Await, ast.Global, ast.Nonlocal)):
            return False
        if isinstance(n, (ast.FunctionDef, ast.AsyncFunctionDef, ast.Lambda, ast.ClassDef)) and n is not fn:
            return False
    body = _strip_doc(fn.body)
    if not body:
        return False
    t = _tailify(copy.deepcopy(body))
    if t is None or _count(t) > MAX_BODY:
        return False
    return True


def _bound_names(fn):
    out = {a.arg for a in fn.args.args}
    for n in ast.walk(fn):
        if isinstance(n, ast.Name):
            out.add(n.id)
        elif isinstance(n, ast.ExceptHandler) and n.name:
            out.add(n.name)
        elif isinstance(n, ast.arg):
            out.add(n.arg)
    return out


def _reads_once_outside_loops(fn, p):
    """p is read exactly once in fn, never written, and the read is not in a loop, comprehension or lambda"""
    loads = [n for n in ast.walk(fn) if isinstance(n, ast.Name) and n.id == p]
    if len(loads) != 1 or not isinstance(loads[0].ctx, ast.Load):
        return False
    for n in ast.walk(fn):
        if isinstance(n, (ast.For, ast.While, ast.ListComp, ast.SetComp, ast.DictComp, ast.GeneratorExp, ast.Lambda)):
            if any(x is loads[0] for x in ast.walk(n)) and not (
                    isinstance(n, ast.For) and any(x is loads[0] for x in ast.walk(n.iter))):
                return False
    return True


def _instantiate(fn, call, recv, owner):
    """(statements before, tailified body with parameters and locals bound) or None"""
    params = [x.arg for x in fn.args.args]
    defaults = dict(zip(params[len(params) - len(fn.args.defaults):], fn.args.defaults))
    bind = {}
    if recv is not None:
        if not params:
            return None
        bind[params[0]] = recv
        params = params[1:]
    if len(call.args) > len(params) or any(isinstance(a, ast.Starred) for a in call.args):
        return None
    for p, a in zip(params, call.args):
        bind[p] = a
    for k in call.keywords:
        if k.arg is None or k.arg not in params or k.arg in bind:
            return None
        bind[k.arg] = k.value
    for p in params:
        if p not in bind:
            if p not in defaults:
                return None
            bind[p] = defaults[p]
    caller_names = _bound_names(owner)
    all_params = {x.arg for x in fn.args.args}
    stores = {n.id for n in ast.walk(fn) if isinstance(n, ast.Name) and isinstance(n.ctx, (ast.Store, ast.Del))}
    stores |= {n.name for n in ast.walk(fn) if isinstance(n, ast.ExceptHandler) and n.name}
    helper_locals = stores - all_params
    pre = []
    subst = {}
    ren = {}
    for p, a in bind.items():
        arg_names = {n.id for n in ast.walk(a) if isinstance(n, ast.Name)}
        clash = bool(arg_names & helper_locals)
        if p not in stores and not clash and (_simple(a) or _reads_once_outside_loops(fn, p)):
            subst[p] = a
        else:
            same = isinstance(a, ast.Name) and a.id == p
            tmp = p if (p not in caller_names or same) else p + SUFFIX
            if not same:
                pre.append(ast.Assign([ast.Name(tmp, ast.Store())], copy.deepcopy(a)))
            ren[p] = tmp
    # a local of the helper that the caller uses too keeps its name only when the caller defines it the same way
    # (lines moved verbatim out of a function that still unpacks the same value): otherwise it gets a suffix
    caller_defs = {ast.unparse(n) for n in ast.walk(owner) if isinstance(n, ast.Assign)}
    for loc in sorted(helper_locals):
        if loc in caller_names:
            mine = [n for n in ast.walk(fn) if isinstance(n, (ast.Assign, ast.AugAssign, ast.For, ast.With, ast.ExceptHandler))
                    and ((isinstance(n, ast.ExceptHandler) and n.name == loc) or any(
                        isinstance(x, ast.Name) and x.id == loc and isinstance(x.ctx, ast.Store)
                        for t in (n.targets if isinstance(n, ast.Assign) else
                                  [n.target] if isinstance(n, (ast.AugAssign, ast.For)) else
                                  [i.optional_vars for i in n.items if i.optional_vars is not None]
                                  if isinstance(n, ast.With) else []) for x in ast.walk(t)))]
            same = mine and all(isinstance(n, ast.Assign) and not (set(bind) & {x.id for x in ast.walk(n.value)
                                                                                  if isinstance(x, ast.Name)} - set(
                                    p_ for p_, a_ in bind.items() if isinstance(a_, ast.Name) and a_.id == p_))
                                and ast.unparse(n) in caller_defs for n in mine)
            # ... or when the caller had a local of that name on the reference tree
            if not same and loc not in _KEEP.get(id(owner), ()):
                ren[loc] = loc + SUFFIX

    class T(ast.NodeTransformer):
        def visit_Name(self, node):
            if node.id in subst and isinstance(node.ctx, ast.Load):
                return ast.copy_location(copy.deepcopy(subst[node.id]), node)
            if node.id in ren:
                return ast.copy_location(ast.Name(ren[node.id], node.ctx), node)
            return node

        def visit_ExceptHandler(self, node):
            self.generic_visit(node)
            if node.name in ren:
                node.name = ren[node.name]
            return node

        # a literal argument decides what the helper does at this call site
        def visit_IfExp(self, node):
            self.generic_visit(node)
            if isinstance(node.test, ast.Constant):
                return node.body if node.test.value else node.orelse
            return node

        def visit_If(self, node):
            self.generic_visit(node)
            t = node.test
            if isinstance(t, ast.UnaryOp) and isinstance(t.op, ast.Not) and isinstance(t.operand, ast.Constant):
                t = ast.Constant(not t.operand.value)
            if isinstance(t, ast.Constant):
                return (node.body if t.value else node.orelse) or [ast.copy_location(ast.Pass(), node)]
            return node

    body = _tailify(copy.deepcopy(_strip_doc(fn.body)))
    if body is None:
        return None
    out = []
    for s in body:
        r = T().visit(s)
        out.extend(r if isinstance(r, list) else [r])
    return pre, out


def _bind_returns(stmts, mk):
    """replace the tail-position returns of a tailified body by mk(expr) (a list of statements)"""
    if not stmts:
        return mk(None)
    last = stmts[-1]
    if isinstance(last, ast.Return):
        return stmts[:-1] + mk(last.value)
    if isinstance(last, ast.If) and _has_return(last):
        last.body = _bind_returns(list(last.body), mk) or [ast.Pass()]
        last.orelse = _bind_returns(list(last.orelse), mk)
        return stmts
    return stmts + mk(None)


def _relocate(stmts, at):
    for s in stmts:
        for n in ast.walk(s):
            if hasattr(n, 'lineno') or isinstance(n, (ast.stmt, ast.expr)):
                ast.copy_location(n, at)
        ast.fix_missing_locations(s)
    return stmts


def _head_exprs(st):
    if isinstance(st, (ast.Expr, ast.Return)):
        return [st.value] if st.value is not None else []
    if isinstance(st, (ast.Assign, ast.AugAssign, ast.AnnAssign)):
        return [st.value] if st.value is not None else []
    if isinstance(st, ast.If):
        return [st.test]
    if isinstance(st, ast.For):
        return [st.iter]
    if isinstance(st, ast.With):
        return [st.items[0].context_expr]
    if isinstance(st, ast.Raise):
        return [st.exc] if st.exc is not None else []
    return []


def _walk_unconditional(e):
    """sub-expressions that are evaluated whenever e is, once"""
    yield e
    if isinstance(e, (ast.Lambda, ast.ListComp, ast.SetComp, ast.DictComp, ast.GeneratorExp)):
        return
    if isinstance(e, ast.BoolOp):
        yield from _walk_unconditional(e.values[0])
        return
    if isinstance(e, ast.IfExp):
        yield from _walk_unconditional(e.test)
        return
    for c in ast.iter_child_nodes(e):
        if isinstance(c, ast.expr):
            yield from _walk_unconditional(c)
        elif isinstance(c, ast.keyword):
            yield from _walk_unconditional(c.value)


_KEEP = {}


def apply(tree, modname, known, ref_locals=None):
    """inline new helpers in place; returns the list of '<helper> into <function>' done"""
    done = []
    _KEEP.clear()
    for n in tree.body:
        if isinstance(n, ast.FunctionDef):
            _KEEP[id(n)] = set((ref_locals or {}).get('%s:%s' % (modname, n.name), ()))
        elif isinstance(n, ast.ClassDef):
            for m_ in n.body:
                if isinstance(m_, ast.FunctionDef):
                    keep = set((ref_locals or {}).get('%s:%s.%s' % (modname, n.name, m_.name), ()))
                    for sub in ast.walk(m_):
                        if isinstance(sub, ast.FunctionDef):
                            _KEEP[id(sub)] = keep
    top = {n.name: n for n in tree.body if isinstance(n, ast.FunctionDef)}
    classes = {n.name: n for n in tree.body if isinstance(n, ast.ClassDef)}
    new_top = {name: fn for name, fn in top.items() if '%s:%s' % (modname, name) not in known and _eligible(fn)}
    new_meth = {}
    for cname, c in classes.items():
        for m in c.body:
            if isinstance(m, ast.FunctionDef) and '%s:%s.%s' % (modname, cname, m.name) not in known and _eligible(m):
                new_meth[(cname, m.name)] = m
    if not new_top and not new_meth:
        return done

    def helper_for(call, cname):
        f = call.func
        if isinstance(f, ast.Name) and f.id in new_top:
            return new_top[f.id], None
        if isinstance(f, ast.Attribute) and isinstance(f.value, ast.Name) and cname and \
                (f.value.id in ('self', 'cls') or f.value.id in classes):
            # the class itself or a base class defined in this module
            seen, todo = set(), [cname if f.value.id in ('self', 'cls') else f.value.id]
            while todo:
                cn = todo.pop()
                if cn in seen or cn not in classes:
                    continue
                seen.add(cn)
                if (cn, f.attr) in new_meth:
                    h = new_meth[(cn, f.attr)]
                    if _is_static(h):
                        return h, None
                    if f.value.id != 'self':
                        return None, None
                    return h, f.value
                todo.extend(b.id for b in classes[cn].bases if isinstance(b, ast.Name))
        return None, None

    def expression_helper(h):
        body = _strip_doc(h.body)
        return len(body) == 1 and isinstance(body[0], ast.Return) and body[0].value is not None

    def replace_node(root, old, new):
        class R(ast.NodeTransformer):
            def visit(self, node):
                if node is old:
                    return new
                return super().visit(node)
        return R().visit(root)

    def inline_expressions(fn, cname):
        """calls to one-expression helpers, anywhere in fn"""
        changed = True
        n = 0
        while changed and n < 50:
            changed = False
            for call in [x for x in ast.walk(fn) if isinstance(x, ast.Call)]:
                h, recv = helper_for(call, cname)
                if h is None or h is fn or not expression_helper(h):
                    continue
                inst = _instantiate(h, call, recv, fn)
                if inst is None or inst[0]:
                    continue
                expr = inst[1][0].value
                for x in ast.walk(expr):
                    if hasattr(x, 'lineno') or isinstance(x, ast.expr):
                        ast.copy_location(x, call)
                replace_node(fn, call, expr)
                done.append('%s into %s' % (h.name, fn.name))
                changed = True
                n += 1
                break

    def rewrite(stmts, cname, owner):
        i = 0
        budget = 200
        while i < len(stmts) and budget > 0:
            st = stmts[i]
            new = None
            call = st.value if isinstance(st, (ast.Expr, ast.Assign, ast.Return)) and \
                isinstance(getattr(st, 'value', None), ast.Call) else None
            if isinstance(st, ast.Assign) and len(st.targets) != 1:
                call = None
            h = recv = None
            if call is not None:
                h, recv = helper_for(call, cname)
            if h is not None and h is not owner:
                inst = _instantiate(h, call, recv, owner)
                if inst is not None:
                    pre, body = inst
                    if isinstance(st, ast.Expr):
                        def mk(e):
                            return [ast.Expr(e)] if e is not None and not _simple(e) else []
                    elif isinstance(st, ast.Assign):
                        def mk(e, st=st):
                            if e is not None and ast.dump(e).replace('Load()', '') == \
                                    ast.dump(st.targets[0]).replace('Store()', ''):
                                return []       # x = x
                            return [ast.Assign(copy.deepcopy(st.targets), e if e is not None else ast.Constant(None))]
                    else:
                        def mk(e):
                            return [ast.Return(e)]
                    new = pre + _bind_returns(body, mk)
            if new is None:
                # a call in the head of the statement to a helper with one final return
                for e in _head_exprs(st):
                    for c in _walk_unconditional(e):
                        if not isinstance(c, ast.Call) or c is call:
                            continue
                        h2, recv2 = helper_for(c, cname)
                        if h2 is None or h2 is owner:
                            continue
                        body0 = _strip_doc(h2.body)
                        if not isinstance(body0[-1], ast.Return) or body0[-1].value is None or \
                                any(_has_return(s) for s in body0[:-1]):
                            continue
                        inst = _instantiate(h2, c, recv2, owner)
                        if inst is None:
                            continue
                        pre, body = inst
                        result = body[-1].value
                        replace_node(st, c, result)
                        new = pre + body[:-1] + [st]
                        h = h2
                        break
                    if new is not None:
                        break
            if new is not None:
                new = _relocate(new, st) or [ast.copy_location(ast.Pass(), st)]
                stmts[i:i + 1] = new
                done.append('%s into %s' % (h.name, owner.name))
                budget -= 1
                continue        # look at the same position again: the inlined statements may call helpers too
            for fld in ('body', 'orelse', 'finalbody'):
                sub = getattr(st, fld, None)
                if isinstance(sub, list) and sub and isinstance(sub[0], ast.stmt) and \
                        not isinstance(st, (ast.FunctionDef, ast.AsyncFunctionDef, ast.ClassDef)):
                    rewrite(sub, cname, owner)
            for hd in getattr(st, 'handlers', []):
                rewrite(hd.body, cname, owner)
            i += 1

    def all_functions():
        for fn in top.values():
            yield fn, None
        for cname, c in classes.items():
            for m in c.body:
                if isinstance(m, ast.FunctionDef):
                    yield m, cname

    for fn, cname in all_functions():
        inline_expressions(fn, cname)
    for fn, cname in all_functions():
        rewrite(fn.body, cname, fn)
        for sub in ast.walk(fn):
            if isinstance(sub, ast.FunctionDef) and sub is not fn:
                rewrite(sub.body, cname, sub)
    # a helper that is not referred to any more is dropped, so that rules ranging over "every function that ..." see
    # the reference structure
    for name, fn in list(new_top.items()):
        refs = [n for n in ast.walk(tree) if isinstance(n, ast.Name) and n.id == name]
        if not refs and fn in tree.body:
            tree.body.remove(fn)
    for (cname, mname), fn in list(new_meth.items()):
        refs = [n for n in ast.walk(tree) if isinstance(n, ast.Attribute) and n.attr == mname]
        if not refs and fn in classes[cname].body:
            classes[cname].body.remove(fn)
            if not classes[cname].body:
                classes[cname].body.append(ast.Pass())
    return done
