#!/bin/bash
# usage: tools/runall.sh [tier] [props...]  -- compact summary: rc + VIOLATION/ANALYSIS lines
tier=${1:-quick}; shift
props=${@:-C01 C02 C03 C04 C05 C06 C07 C08 C09 C10 C11 C12 C13 C14 C15 C16 C17 C18 C19 C20}
mkdir -p /tmp/ev
for p in $props; do
  out=$(/venv/bin/python /verif/check.py $p --tier $tier --evidence-dir /tmp/ev 2>&1); rc=$?
  echo "$p rc=$rc $(echo "$out" | grep -c KNOWN-FINDING) known"
  echo "$out" | grep -v KNOWN-FINDING | grep -E "VIOLATION|ANALYSIS-ERROR|Traceback|^[A-Za-z]*Error|MISSED|FALSE|undetected|not silent" | cut -c1-400 | head -8
done
