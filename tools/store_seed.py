#!/usr/bin/env python3
"""store_seed.py <Cxx> <k> <needs-text>: keep a confirmed seeded change under /verif/seeded/<Cxx>-<k>/.

patch.diff is re-based on /repo's current HEAD (3-way apply, diff, revert); the demo's hard-coded scratch
path is replaced by $BILLIARD_TREE (default /repo); meta.json records what was run to confirm the change
(from /tmp/seedverify/<Cxx>_<k>.txt, written by tools/verify_seed.sh) and which checks report it.
"""
import json
import os
import re
import subprocess
import sys

P, K = sys.argv[1], sys.argv[2]
needs = sys.argv[3] if len(sys.argv) > 3 else ''
ROOT = os.environ.get('WT_ROOT', '/tmp/wt')
TAG = os.environ.get('SEED_TAG', '')
src = '%s/%s/out/%s' % (ROOT, P, K)
dst = '/verif/seeded/%s%s-%s' % (TAG, P, K)
os.makedirs(dst, exist_ok=True)


def sh(cmd, **kw):
    return subprocess.run(cmd, shell=True, capture_output=True, text=True, **kw)


assert not sh('git -C /repo status --porcelain --untracked-files=no').stdout.strip(), '/repo dirty'
r = sh('git -C /repo apply --check %s/patch.diff' % src)
if r.returncode == 0:
    sh('git -C /repo apply %s/patch.diff' % src)
    rebased = False
else:
    r = sh('git -C /repo apply --3way %s/patch.diff' % src)
    if r.returncode != 0:
        sh('git -C /repo reset -q')
        sh('git -C /repo checkout -q -- .')
        raise SystemExit('NEEDS-MANUAL-REBASE %s %s: %s' % (P, K, r.stderr.strip()[-120:]))
    sh('git -C /repo reset -q')
    rebased = True
diff = sh('git -C /repo diff').stdout
sh('git -C /repo checkout -q -- .')
assert diff.strip()
open(dst + '/patch.diff', 'w').write(diff)
demo = open(src + '/demo.py').read()
demo = demo.replace("'%s/%s'" % (ROOT, P), "__import__('os').environ.get('BILLIARD_TREE', '/repo')")
demo = demo.replace('"%s/%s"' % (ROOT, P), "__import__('os').environ.get('BILLIARD_TREE', '/repo')")
open(dst + '/demo.py', 'w').write(demo)
if os.path.exists(src + '/notes.md'):
    open(dst + '/notes.md', 'w').write(open(src + '/notes.md').read())
SV = os.environ.get('SV_DIR', '/tmp/seedverify')
ver = open('%s/%s_%s.txt' % (SV, P, K)).read() if os.path.exists('%s/%s_%s.txt' % (SV, P, K)) else ''
clean = re.search(r'== clean demo\n(.*)', ver)
patched = re.search(r'== patched demo\n(.*)', ver)
suite = re.search(r'== patched test suite\n(.*)', ver)
# which checks report it
out = sh('/verif/tools/seedcheck.sh %s/patch.diff' % dst).stdout
detected = sorted(set(re.findall(r'VIOLATED (R[0-9.]+) ([^\n]*?) at billiard', out)))
by_prop = sorted(set(re.findall(r'^(C\d\d) rc=1', out, re.M)))
meta = {
    'seed': '%s%s-%s' % (TAG, P, K),
    'breaks_property': P,
    'origin': 'independent sub-agent given only the property text and a scratch worktree of /repo',
    'needs_to_manifest': needs,
    'patch_rebased_on_repo_head': rebased,
    'confirmed_by_me': {
        'where': 'scratch worktree %s/%s (removed afterwards)' % (ROOT, P),
        'commands': ['tools/verify_seed.sh %s %s' % (P, K)],
        'demo_on_clean_tree': (clean.group(1).strip()[-200:] if clean else ''),
        'demo_on_patched_tree': (patched.group(1).strip()[-300:] if patched else ''),
        'test_suite_on_patched_tree': (suite.group(1).strip() if suite else ''),
    },
    'reported_by_checks': by_prop,
    'reported_rules': ['%s %s' % d for d in detected][:12],
    'how_to_rerun': 'git -C /repo apply /verif/seeded/%s%s-%s/patch.diff; /venv/bin/python /verif/check.py <prop>; '
                    'git -C /repo checkout -- .   (demo: BILLIARD_TREE=<tree> /venv/bin/python demo.py)' % (TAG, P, K),
}
json.dump(meta, open(dst + '/meta.json', 'w'), indent=1)
print(P, K, 'rebased' if rebased else 'clean-apply', 'detected by', by_prop, [d[0] for d in detected][:4])
