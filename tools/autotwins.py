#!/usr/bin/env python3
"""Run only the whole-package automatic twins for every property (or the given ones) and print alarms."""
import sys, os
sys.path.insert(0, os.path.dirname(os.path.dirname(os.path.abspath(__file__))))
from sa import selftest
import multiprocessing as mp
props = sys.argv[1:] or ['C%02d' % i for i in range(1, 21)]
names = [n for n in selftest.AUTO_TWINS if n not in ('auto-reformat', 'auto-rename-locals')] if os.environ.get('NEW_ONLY') else list(selftest.AUTO_TWINS)
if os.environ.get('ONLY'):
    names = os.environ['ONLY'].split(',')
def job(a):
    prop, name = a
    base = selftest._violations('/repo', prop)
    return prop, name, selftest._auto_twin(('/repo', prop, name, base))
with mp.get_context('fork').Pool(16) as pool:
    for prop, name, r in pool.map(job, [(p, n) for p in props for n in names]):
        if r[2] != 'silent':
            print(prop, name, r[2], r[3][:400])
print('done')
