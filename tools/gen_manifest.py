#!/usr/bin/env python3
"""Regenerate /verif/MANIFEST.json from the table below (run after adding a check)."""
import json
import os

HERE = os.path.dirname(os.path.dirname(os.path.abspath(__file__)))

BASELINE = ("cd /repo && /venv/bin/python -m pytest -ra -q -p no:cacheprovider --timeout=900 "
            "--continue-on-collection-errors")

# property -> (technique, level text, level note (what is NOT decided / trusted), design ref)
CHECKS = {}
NOT_APPLICABLE = {}


def claim(pid, technique, text, note, ref):
    CHECKS[pid] = (technique, text, note, ref)


def decline(pid, reason):
    NOT_APPLICABLE[pid] = reason


exec(open(os.path.join(HERE, 'tools', 'claims.py')).read())


def main():
    checks = []
    for pid in sorted(CHECKS):
        technique, text, note, ref = CHECKS[pid]
        text = text + (' ' + ADDED[pid] if pid in globals().get('ADDED', {}) else '')
        checks.append({
            'property_id': pid,
            'quick_cmd': '/venv/bin/python /verif/check.py %s --tier quick' % pid,
            'thorough_cmd': '/venv/bin/python /verif/check.py %s --tier thorough' % pid,
            'evidence_file': '/verif/evidence/%s.json' % pid,
            'replay_cmd_template': '/venv/bin/python /verif/check.py %s --tier quick -v  # replay file: {path}' % pid,
            'engine': 'sa',
            'level_claimed': {'category': 'other', 'text': text, 'design_ref': ref},
            'level_note': note,
            'technique': technique,
        })
    man = {
        'version': 1,
        'setup_cmd': '/venv/bin/python -m compileall -q /verif/sa /verif/check.py',
        'hooks': {
            'guard': 'BILLIARD_VERIF',
            'enable': 'none needed: the checks are static and read /repo\'s source; no hook code exists in billiard',
            'baseline_off_cmd': BASELINE,
            'source_commits': [],
            'add_only': True,
        },
        'engines': [{
            'name': 'sa', 'path': '/verif/sa',
            'serves_properties': sorted(CHECKS),
            'kind_free_text': 'repository-specific static analyser on stdlib ast: resolved program model, '
                              'per-function CFG with exception edges, dominance/must-pass/guard/path-count '
                              'queries, rule tables per property, mutant/twin self-test on in-memory overlays',
        }],
        'checks': checks,
        'not_applicable': [{'property_id': p, 'reason': r} for p, r in sorted(NOT_APPLICABLE.items())],
        'notes': 'Static analysis only: every check re-parses /repo/billiard on every run and decides '
                 'structural necessary conditions of the property (DESIGN.md section 3); the runtime '
                 'behaviour itself is never claimed. exit 2 + ANALYSIS-ERROR = an anchor vanished or the '
                 'checker self-test failed (no verdict).',
    }
    with open(os.path.join(HERE, 'MANIFEST.json'), 'w') as f:
        json.dump(man, f, indent=1)
    print('MANIFEST.json: %d checks, %d not_applicable' % (len(checks), len(NOT_APPLICABLE)))


if __name__ == '__main__':
    main()
