#!/venv/bin/python
"""Find which *local variable names* of billiard functions the rules depend on.

For every outermost function of the package, rename one local at a time (consistently, nested
functions included; parameters, globals and attributes are never touched), re-run every property on
the in-memory overlay and record the (function, local) pairs whose renaming changes a verdict.
The result is written to /verif/sa/rules/local_anchors.json and used by check.py as an anchor
table: if a listed local no longer exists in its function the run ends with ANALYSIS-ERROR (exit 2,
"no verdict") instead of risking a VIOLATION caused by a mere rename.

Static: nothing of billiard is executed.  Run after changing rules:  tools/discover_local_anchors.py
"""
import ast
import importlib
import json
import multiprocessing as mp
import os
import sys

sys.path.insert(0, '/verif')
from sa.model import Model, AnalysisError   # noqa: E402
from sa.report import Ctx                   # noqa: E402

REPO = '/repo'
PROPS = ['C%02d' % i for i in range(1, 21)]


def locals_of(fn):
    params, stores, globs = set(), set(), set()
    for n in ast.walk(fn):
        if isinstance(n, (ast.FunctionDef, ast.AsyncFunctionDef, ast.Lambda)):
            a = n.args
            for x in a.posonlyargs + a.args + a.kwonlyargs:
                params.add(x.arg)
            if a.vararg:
                params.add(a.vararg.arg)
            if a.kwarg:
                params.add(a.kwarg.arg)
            if not isinstance(n, ast.Lambda) and n is not fn:
                params.add(n.name)
        elif isinstance(n, (ast.Global, ast.Nonlocal)):
            globs.update(n.names)
        elif isinstance(n, ast.Name) and isinstance(n.ctx, (ast.Store, ast.Del)):
            stores.add(n.id)
        elif isinstance(n, ast.ExceptHandler) and n.name:
            stores.add(n.name)
        elif isinstance(n, (ast.Import, ast.ImportFrom)):
            for al in n.names:
                params.add((al.asname or al.name).split('.')[0])
        elif isinstance(n, ast.ClassDef):
            params.add(n.name)
    return sorted(s for s in stores if s not in params and s not in globs and not s.startswith('__'))


def outer_functions(tree):
    """[(qualname, FunctionDef)] for functions not nested in another function"""
    out = []

    def rec(body, prefix):
        for st in body:
            if isinstance(st, (ast.FunctionDef, ast.AsyncFunctionDef)):
                out.append((prefix + st.name, st))
            elif isinstance(st, ast.ClassDef):
                rec(st.body, prefix + st.name + '.')
            elif isinstance(st, (ast.If, ast.Try, ast.With)):
                rec(getattr(st, 'body', []), prefix)
                rec(getattr(st, 'orelse', []), prefix)
                for h in getattr(st, 'handlers', []):
                    rec(h.body, prefix)
                rec(getattr(st, 'finalbody', []), prefix)
    rec(tree.body, '')
    return out


def rename_in(src, lineno, names, suffix='_zz'):
    tree = ast.parse(src)
    target = None
    for q_, fn in outer_functions(tree):
        if fn.lineno == lineno:
            target = fn
    assert target is not None
    mapping = {n: n + suffix for n in names}
    for n in ast.walk(target):
        if isinstance(n, ast.Name) and n.id in mapping:
            n.id = mapping[n.id]
        elif isinstance(n, ast.ExceptHandler) and n.name in mapping:
            n.name = mapping[n.name]
    out = ast.unparse(tree)
    compile(out, '<renamed>', 'exec')
    return out


def verdicts(overlay):
    res = {}
    model = Model(REPO, overlay=overlay)
    for p in PROPS:
        mod = importlib.import_module('sa.rules.' + p.lower())
        ctx = Ctx(model, p)
        try:
            mod.run(ctx)
            ctx.check_floors()
            res[p] = sorted((o.rule, o.key) for o in ctx.violations())
        except AnalysisError as e:
            res[p] = 'ANALYSIS-ERROR'
        except Exception as e:
            res[p] = 'CRASH %r' % (e,)
    return res


def job(args):
    rel, lineno, names = args
    src = open(os.path.join(REPO, rel)).read()
    try:
        ov = {rel: rename_in(src, lineno, names)}
    except Exception as e:
        return (args, 'skip %r' % (e,))
    return (args, verdicts(ov))


def main():
    files = []
    for dp, dn, fn in os.walk(os.path.join(REPO, 'billiard')):
        for f in fn:
            if f.endswith('.py'):
                files.append(os.path.relpath(os.path.join(dp, f), REPO))
    # baseline on the *reformatted* tree (unparse changes nothing semantically; verdicts equal the real tree)
    base = verdicts(None)
    funcs = []
    for rel in sorted(files):
        tree = ast.parse(open(os.path.join(REPO, rel)).read())
        for qn, fn in outer_functions(tree):
            ls = locals_of(fn)
            if ls:
                funcs.append((rel, qn, fn.lineno, ls))
    with mp.get_context('fork').Pool(16) as pool:
        r1 = pool.map(job, [(rel, ln, tuple(ls)) for (rel, qn, ln, ls) in funcs])
        dependent = []
        for (rel, qn, ln, ls), (a, v) in zip(funcs, r1):
            if isinstance(v, dict) and v != base:
                dependent.append((rel, qn, ln, ls))
        print('functions whose local names matter: %d of %d' % (len(dependent), len(funcs)))
        work = [(rel, ln, (l,)) for (rel, qn, ln, ls) in dependent for l in ls]
        names = [(rel, qn, l) for (rel, qn, ln, ls) in dependent for l in ls]
        r2 = pool.map(job, work)
    table = {}
    for (rel, qn, l), (a, v) in zip(names, r2):
        if isinstance(v, dict) and v != base:
            props = sorted(p for p in PROPS if v[p] != base[p])
            table.setdefault('%s::%s' % (rel, qn), {})[l] = props
    out = '/verif/sa/rules/local_anchors.json'
    # how every local of an anchored function is defined on this (reference) tree: lets the checker follow a pure rename
    from sa import localfp
    from sa.model import Model
    m = Model('/repo')
    fps = {}
    for key in table:
        rel, qn = key.split('::')
        mod = rel[len('billiard/'):-3].replace('/', '.')
        fi = m.funcs.get('%s:%s' % (mod, qn))
        if fi is not None:
            fps[key] = {l: list(fp) for l, fp in localfp.fingerprints(fi.node).items()}
    json.dump({'_comment': 'generated by tools/discover_local_anchors.py: local variable names the rules depend on; '
                           'a listed local that vanishes from its function and cannot be traced to exactly one new local '
                           'with the same definition fingerprint turns the run into ANALYSIS-ERROR',
               'anchors': table, 'fingerprints': fps, 'functions': sorted(m.funcs)}, open(out, 'w'), indent=1,
              sort_keys=True)
    n = sum(len(v) for v in table.values())
    print('%d (function, local) anchors in %d functions -> %s' % (n, len(table), out))
    for k, v in sorted(table.items()):
        print(' ', k, sorted(v))


if __name__ == '__main__':
    main()
