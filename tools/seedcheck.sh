#!/bin/bash
# seedcheck.sh <patch.diff> [props...]: apply a seeded change to /repo, run the quick checks, undo it.
PATCH=$1; shift
PROPS=${@:-$(python3 -c "import json;print(' '.join(c['property_id'] for c in json.load(open('/verif/MANIFEST.json'))['checks']))")}
cd /repo || exit 2
test -z "$(git status --porcelain --untracked-files=no)" || { echo "REPO DIRTY"; exit 2; }
if ! git apply --check "$PATCH" 2>/dev/null; then
  git apply --3way "$PATCH" >/dev/null 2>&1 || { echo "PATCH DOES NOT APPLY: $PATCH"; git reset -q; git checkout -q -- . ; exit 3; }
  git reset -q
else
  git apply "$PATCH"
fi
/venv/bin/python -m py_compile billiard/*.py || echo "DOES NOT COMPILE"
mkdir -p /tmp/seedev
for p in $PROPS; do
  out=$(/venv/bin/python ${VERIF_ROOT:-/verif}/check.py $p --tier quick --evidence-dir /tmp/seedev 2>&1); rc=$?
  if [ $rc -ne 0 ]; then echo "$p rc=$rc"; echo "$out" | grep -E "^  VIOLATED|ANALYSIS-ERROR" | cut -c1-330; fi
done
git checkout -q -- .
echo "-- done $PATCH"
