# Claims table, exec'd by gen_manifest.py.  claim(pid, technique, text, note, design_ref)
# decline(pid, reason)

_NB = 'checker for the decidable clauses (DESIGN.md section 3) not built yet in this round'
_TB = ('Trusted: CPython ast; the configuration folding table (linux / CPython 3.12 arms only); the anchor tables '
       'in /verif/sa/rules (function and field names read off the code: a vanished anchor aborts with exit 2, '
       'never passes).')

claim('C01',
      'tuple-shape/role inference over the TASK/ACK/READY messages + CFG guard/dominance rules on every '
      'resolution route + exception-handler discipline',
      'Decides structural necessary conditions of exactly-once resolution on every path of pool.py: every key used '
      'on the job cache is a job id (producer/worker/dispatch agreement of the message tuples, through the send-failure '
      'handlers); every outside resolution is on a fresh cache lookup or under a not-ready guard; an entry leaves the '
      'cache exactly when ready and accepted; lookups tolerate finished/unknown jobs; success and error callbacks are '
      'exclusive; outcome writes sit in the handle\'s critical section behind an already-resolved test; the worker '
      'cannot turn its termination signal into a task result. All paths incl. exception edges are covered, which '
      'the six pool tests (one schedule, no faults) never execute.',
      'Not decided: liveness (that a job reaches an outcome) under arbitrary schedules/faults, timeliness, kernel '
      'message loss. Known finding D1b (iterator-failure fallback key 0) is reported as KNOWN-FINDING. ' + _TB,
      'DESIGN.md section 3, C01')

claim('C03',
      'CFG must-pass / path-count / guard rules over Worker.workloop and ApplyResult._ack',
      'Decides on every path of the worker loop (including exception edges and the NACK branch): a completed '
      'ACK put carrying (job, part, clock read, own pid) precedes the task call; exactly one completed READY put '
      'per executed job (fallback only on the failure edge of the first, flagged as failure) and no path on which a '
      'task\'s own exception escapes without a result; the NACK answer '
      'reaches the loop head without task call, READY or quota increment; the quota counter moves by one per '
      'executed job and is compared with <; the parent records owner/time before the accept callback and '
      'answers NACK without owner on the cancelled arm; the dispatch table covers ACK/READY/DEATH with matching '
      'arity. These are necessary conditions of the property, decided for all paths rather than the one '
      'schedule a test sees.',
      'Not decided: that the parent processes ACK before READY at run time (follows from one FIFO pipe + one '
      'consumer thread, assumed); behaviour of a hostile synq peer; message loss in the kernel. ' + _TB,
      'DESIGN.md section 3, C03')

claim('C04',
      'sibling/interface cross-check of the four cache-entry classes + CFG guard rules on the reaper',
      'Decides: every member the reaper uses on a cached job is provided by every handle class; the pool-made '
      'failure form makes every handle class ready / hands the consumer an item; owners of finished parts are '
      'forgotten; the lost marker has one writer, reached only for an unfinished job with an owner that really '
      'exited (popen None or exit code set; pid in cleaned or not among live pids); a job is declared lost only from '
      'the reaper after now - lost_time exceeded its timeout, with the recorded status; wait-status decoding '
      '(-WTERMSIG / WEXITSTATUS); exactly {EX_OK, EX_RECYCLE} are exempt from error logging.',
      'Not decided: the timing bounds, that every other job completes, replacement timing, deaths outside task code. '
      'Known findings D3 (x3), D3b, D4b (x3) are genuine defects of the pinned tree reported as KNOWN-FINDING. ' + _TB,
      'DESIGN.md section 3, C04')

claim('C05',
      'attribute-shape lattice over the cache-entry classes + reaching-definition/guard rules on the time-limit scan',
      'Decides: members and scalar shapes the scanner needs exist in every handle class; the limit compared is '
      'the job\'s own with the pool default only under `is None`, per-call before pool default in apply_async and bound '
      'to the right constructor parameter; _timed_out is truthy only when now >= start + limit with both set; the job is '
      'failed with TimeLimitExceeded(limit) before its own worker is signalled; _trywaitkill escalates to SIGKILL on '
      'every path that did not see the worker exit; hard test before and excluding soft; the worker honours the '
      'termination signal (R08.1); the supervision tick reaps then refills.',
      'Not decided: "within about one scan period", "shortly afterwards", that the replacement serves later jobs '
      '(timing / OS facts). Known findings D4 (x2), D4b (x5): map and imap jobs crash the scanner on the pinned tree. '
      + _TB, 'DESIGN.md section 3, C05')

claim('C06',
      'CFG guard/must-pass rules on the soft-timeout path + reaching definitions of the signalled set',
      'Decides: the soft action runs only for a key not in the signalled set, the key is added right after, the set is '
      'created outside the scan loop and only pruned of keys that left the cache, and the hard test never consults it; '
      'signal = SIGUSR1 to the job\'s owner pid, callback told soft=True and the soft limit; the worker installs the '
      'raising handler after reset_signals; no action for a resolved job or a pid that is not a pool worker; soft '
      'limit precedence; hard excludes soft.',
      'Not decided: that the exception surfaces inside task code (signal delivery point), that a caught soft timeout '
      'still delivers the value, scan timing. Known findings D4/D4b shared with C05. ' + _TB,
      'DESIGN.md section 3, C06')

claim('C07',
      'guard dominance on submission methods, must-pass on shutdown paths, who-may-rebind on shared roots, '
      'data-dependence (provenance) of the consumed-result credit',
      'Decides: every handle construction / task enqueue is under state == RUN and close() flips the state before '
      'the sentinel; the feeder sends one sentinel per worker of the live list (shared lists are never rebound) and one '
      'to the result handler on every exit; the result handler always ends in finish_at_shutdown, which dispatches '
      'every message while the cache is non-empty and gives up only 5 s after WorkersJoined; join() stops the three '
      'threads and joins every started worker; the worker waits for its own completed count on every exit.',
      'Not decided: that jobs resolve with their real result, absence of hangs, wall time of join(), reaping as an OS '
      'fact. Known findings D5 (credit keyed by the job, not the sender) and D6 (credit skipped for a discarded job): '
      'both give the 30 s join on the pinned tree. ' + _TB,
      'DESIGN.md section 3, C07')

claim('C08',
      'exception-handler discipline over the worker call graph + must-pass rules on the exit path and _terminate_pool',
      'Decides: no handler reachable in worker code can swallow the SystemExit of the termination handler (re-raise '
      'whenever the exit flag is set); every way out of Worker.__call__ runs _do_exit, which calls the exit callback '
      'first, reports (pid, exitcode) and reaches os._exit on every edge; _terminate_pool marks/stops every helper, '
      'enqueues both sentinels, terminates then joins every live worker (loops visit every worker); it is referenced '
      'only as the Finalize callback; terminate_job marks the process it signalled and the reaper reports Terminated '
      'exactly for marked processes; the termination signal is in both signal tables; forks re-check the pool state.',
      'Not decided: bounded wall time, "no worker alive afterwards" as an OS fact, wake-up of an idle worker from a '
      'C-level semaphore wait. ' + _TB,
      'DESIGN.md section 3, C08')

claim('C09',
      'path counting and per-iteration must-pass rules on supervision, normal forms of loop bounds',
      'Decides: the refill loop runs target - live times, forks exactly once per iteration after re-checking the '
      'state, each new worker is appended/started once with the first free slot index and its own counter; reap '
      'precedes refill and feeds it; quota accounting (one increment per executed job, <, recycle status only at the '
      'quota or memory limit); exit guard on every exit; grow/shrink move target and semaphore together and shrink '
      'lowers the target before terminating an inactive worker.',
      'Not decided: that supervision runs (thread scheduling), fork success, "no job held up" as a runtime fact. '
      'Known findings D3 (x3) and D5: recycling harms multi-part jobs on the pinned tree. ' + _TB,
      'DESIGN.md section 3, C09')

claim('C19',
      'path enumeration of the exit-code table and guard rules on Popen.poll/wait and the start/join guards',
      'Decides: _bootstrap returns 0 only after a completed run(), SystemExit(int) -> that int, SystemExit() -> 1, '
      'other exceptions -> 1, and the forked child passes it to os._exit in a finally; Popen.poll decodes '
      '-WTERMSIG/WEXITSTATUS only for its own pid and caches; forkserver poll stores the value read or non-zero; '
      'a timed wait polls only after the sentinel was ready, else None; start asserts not-started and creator, '
      'join discards the child only after a code, exitcode/is_alive go through poll.',
      'Not decided: every signal/start-method combination at run time, join timing. ' + _TB,
      'DESIGN.md section 3, C19')

claim('C10',
      'inductive per-method invariant of the semaphore (guard + update in one lock region, who-may-write) and '
      'acquire/release route pairing over the resolution call sites',
      'Decides: every write to the semaphore value is +1 (or :=bound) under value < bound with test and update in one '
      'critical section of the condition; grow moves bound and value together, shrink lowers the bound and takes one '
      'slot; only the class writes value/bound; with put-locks the slot is acquired before the handle exists; every '
      'resolution route releases under not-ready before resolving, or ends a worker whose reaping returns the slot; '
      'the reaper returns one status per removed worker (whatever the kind of exit) and the tick releases once per '
      'status; close() clears.',
      'Not decided: blocking behaviour of acquire, the value "at quiescence" over all histories (needs a conservation '
      'argument over runtime multisets). Known finding D1c: the send-failure route leaks the slot. ' + _TB,
      'DESIGN.md section 3, C10')

claim('C11',
      'path/guard decision table of restart_state.step in comparison normal form + guard rules on the refill loop',
      'Decides: step() raises only under R >= maxR and never in an expired window, resets R before raising, restarts '
      'count and window when now - T >= maxT, counts exactly one per admitted call, opens the window on the first call; '
      'the refill loop consults it exactly for statuses outside {clean, recycle} or unknown exits, before the fork, '
      'and no handler can swallow the refusal; an accepted job resets the count on every path; the supervisor '
      'restores the pool limiter after a burst of ten ticks with budget 10 x size per second.',
      'Not decided: the limiter over real time sequences (the table is decided, not its consequences over histories). '
      + _TB, 'DESIGN.md section 3, C11')

claim('C02',
      'polynomial normal form of index expressions (chunk layout), guard/path-count rules on the reorder buffer, '
      'constructor-binding agreement between producer and consumer',
      'Decides: batch i of _get_tasks covers [i*c, (i+1)*c) and MapResult writes/acks exactly that slice with the same '
      'c and length; parts awaited = ceil(length/c) in an accepted form; an empty input always forces zero chunks and '
      'resolves at once; imap releases an item only at its own index (directly or popped at key _index), pairs every '
      'release with one index step, parks early items under their own index, stops only at index == length; the '
      'length announced is enumerate index + 1 with per-sequence reset of the feeder state; map/starmap/imap use the '
      'right mapper and flatten chunks in order; the exception record rebuilds with the remote text as cause.',
      'Not decided: equality with a sequential map for all functions/inputs (a runtime fact), pickling fidelity, which '
      'error a failed map reports. ' + _TB, 'DESIGN.md section 3, C02')

claim('C12',
      'reduce/rebuild writer-reader matching over every pickling hook + guard rules on the bounded copy and the '
      'encoding-error fallback',
      'Decides: every __reduce__/__getstate__/registered reducer in einfo.py and pool.py agrees in arity and position '
      'with its reader; the traceback copy recurses only under depth <= bound with depth + 1 and ends in the '
      'truncation marker, the default bound is recursionlimit // k; every handler around the READY put attempts the '
      'failure-flagged fallback built from MaybeEncodingError (which holds only reprs); the stand-ins carry the '
      'attributes the formatter reads; the text is format_exception of the real, unlimited traceback; get() raises the '
      'transported exception with the remote text as cause.',
      'Not decided: anything per input (depth actually reached, text equality after round trips, which exceptions '
      'pickle, repr() of a pathological value). ' + _TB, 'DESIGN.md section 3, C12')

claim('C13',
      'loop-shape rules (must-pass within an iteration, guards at exits), bounds-check completeness by reachability '
      'under blocked outcomes, framing agreement with struct.calcsize on the literal',
      'Decides for the POSIX Connection: pack/unpack formats equal, header read size = calcsize, payload size = value '
      'unpacked, header before payload; the write loop leaves only at remaining == 0 and advances remaining/buffer only '
      'after the completed write of that iteration, retrying only EINTR; the read loop asks at most `remaining`, stores '
      'and counts every chunk, EOFError only at a boundary and an error inside a message; closed/direction checks '
      'dominate all I/O; the send is reachable only through all four passing bounds checks; BufferTooShort iff the '
      'message does not fit behind offset and readinto only otherwise; oversize decided before the payload is read '
      'and makes the connection unreadable.',
      'Not decided: execution of the loops under kernel short counts/EINTR (their shape is decided), ordering across '
      'messages (kernel FIFO), wait/_poll, the win32 PipeConnection arm (folded away). ' + _TB,
      'DESIGN.md section 3, C13')

claim('C14',
      'lock-region analysis + who-may-write/who-may-call, per-path all-or-nothing effects on the four free-list '
      'indexes, key-role and normal-form checks of the split arithmetic',
      'Decides: indexes and live set are mutated only by Heap methods, private mutators run only inside the lock '
      '(with-region or successful try-lock released in finally), a failed try-lock only defers, deferred blocks are '
      'popped one by one and each is freed; a block leaving its length bucket leaves both address indexes on the same '
      'path with (arena,start)/(arena,stop) keys; coalescing probes stop-index@start and start-index@stop and absorbs; '
      'malloc hands out [start, start+rounded size), frees the remainder iff new_stop < stop on every such path, '
      'records the block live before returning; alignment is a power of two >= 8 and _roundup is (n+a-1)&~(a-1); '
      'best fit by bisect_left, new arena only when nothing fits and large enough.',
      'Not decided: disjointness / exact partition / reuse as consequences over allocate-free histories (arithmetic '
      'over runtime values), GC re-entrancy timing. ' + _TB, 'DESIGN.md section 3, C14')

claim('C15',
      'ordering (dominance) of allocate/zero/initialise, lock-region check of every accessor incl. the generated '
      'property template (parsed after substitution), reduce/rebuild matching',
      'Decides: RawValue/RawArray memset sizeof(obj) bytes between _new_value and use, the initialiser form sizes by '
      'len(initialiser) and passes every element, type codes map to the same-named ctypes types; each object gets a '
      'fresh BufferWrapper of sizeof(type) whose finalizer frees exactly its block and whose view is exactly the '
      'block; every accessor touches _obj only inside the wrapper lock (template: acquire/try/finally release); '
      'objects travel as (type, wrapper, length) only while spawning and the lock travels with them; plus the heap '
      'split/rounding rules the isolation rests on.',
      'Not decided: cross-process visibility of mmap writes, atomicity under contention and zero fill of recycled '
      'storage as runtime facts. ' + _TB, 'DESIGN.md section 3, C15')

claim('C16',
      'lock-region and typestate rules (release only what was acquired), per-path pairing counts of the capacity '
      'semaphore, state-pair matching',
      'Decides: every receive is inside the reader lock and no release is reachable after a failed timed acquire; '
      'feeder and SimpleQueue writes are inside the writer lock; an item is buffered only after the capacity acquire '
      'succeeded and Full is raised exactly otherwise; exactly one place is returned per completed receive and none on '
      'an Empty path; the buffer is appended right / taken left; one unfinished-task credit per accepted item inside '
      'the condition and never for a rejected put, task_done refuses below zero and notifies at zero, join waits iff '
      'non-zero; __getstate__/__setstate__ agree for the three queue classes.',
      'Not decided: exactly-once delivery and per-producer order end to end (schedules), timing of Empty/Full. '
      + _TB, 'DESIGN.md section 3, C16')

claim('C17',
      'protocol-shape rules on Condition.wait / notify / notify_all and Event (dominance, per-iteration must-pass, '
      'counter-tied loops); no interleaving exploration',
      'Decides: the wrappers construct the semaphore with the right kind/value/max; wait announces while holding the '
      'lock, releases it count times, blocks with the timeout, and on every exit acknowledges before re-acquiring '
      'count times and returns the acquire result; notify/notify_all assert ownership and a zero wait semaphore first, '
      'reconcile one sleeper per timed-out waiter, release one token per sleeper grabbed with one acknowledgement each '
      '(counter-tied), and drain stale tokens (by a loop where several can exist); every Event method runs inside its '
      'condition, successful probes are paired with a release, wait returns the probe made after waiting.',
      'NOT decided and not claimed: lost-wake-up freedom over interleavings -- the heart of the property -- needs a '
      'model checker over the semaphore operations, a different technique family; fairness; the C semaphore. '
      'The shape rules are necessary conditions only. ' + _TB, 'DESIGN.md section 3, C17')

claim('C18',
      'completed-call dominance on the hand-over paths, reaching-definition rule for the challenge, guard rules on '
      'the verdict, sibling agreement of deliverer and answerer',
      'Decides: accept()/Client()/the manager server hand over (or read the request) only after both challenge '
      'directions completed, listener delivering first and client answering first; the challenge has exactly one '
      'definition, os.urandom(>=16) evaluated in the body of every call; digest = HMAC(key, that challenge, alg) with '
      'the same structure on both sides; WELCOME only under whole-value equality, FAILURE + AuthenticationError '
      'otherwise; the answerer strips exactly the prefix and fails unless welcomed; all handshake reads are bounded '
      'constants and never unpickle; non-bytes keys are rejected before use; keys pickle only while spawning.',
      'Not decided: the iff over all key pairs (a property of HMAC, e.g. zero padding of short keys), replay '
      'resistance beyond challenge freshness. ' + _TB, 'DESIGN.md section 3, C18')

claim('C20',
      'guard dominance on dispatch, who-presents-the-key over all client constructions, ordering/pairing rules on the '
      'reference protocol, exhaustiveness of reply kinds',
      'Decides: getattr on a referent only under methodname in exposed (fallbacks are the three read-only names), '
      'server functions only after funcname in self.public; every client construction in managers.py passes the '
      'manager key; create() zeroes the count only for a new id, registers then pre-increments under the mutex; '
      'consumers build the proxy (with incref) before the compensating decref of the same token; incref/decref are '
      'single steps under the mutex and dispose both tables exactly at zero; the proxy finalizer decrefs its own '
      'token; every reply kind is handled and #ERROR re-raises the transported exception; the handshake rules of C18.',
      'Not decided: equivalence with local objects, atomicity of single operations (server threading), lifetime over '
      'real create/pass/drop histories. ' + _TB, 'DESIGN.md section 3, C20')



# Clauses added after the blind seeding rounds (DESIGN.md sections 14, 15).  gen_manifest.py appends them to the
# level text of the property.
ADDED = {
 'C01': 'Also: the feeder thread leaves its loop only on state change / sentinel / broken pipe; no lookup in a '
        'per-worker table can raise KeyError into the dispatcher that would take it for an unknown state; acceptance '
        'and owner are recorded before any user callback and on every accepting path; an unfinished job whose owner '
        'is gone is failed for every exit status; handle state is per instance; subclass constructors forward '
        'shared parameters.',
 'C02': 'Also: the imap consumer is woken only after a release or at the end; the reorder buffer / item queue / '
        'value list are per handle (no class-level mutable state); the copied traceback advances its depth.',
 'C03': 'Also: without handshake the owner is always recorded; the accept callback runs inside the handle lock '
        '_set takes; every handler of the READY put attempts the fallback; MaybeEncodingError args are text.',
 'C04': 'Also: the unfinished job of a gone owner is failed whatever the exit status (restated from the owner-gone '
        'outcome); the result handler keeps the pool\'s cache by reference; every supervision tick refills.',
 'C05': 'Also: the scanner and the result handler keep the pool\'s worker list / cache by reference; only the '
        'finalizer stops the scanner; the slot of a killed worker returns with the reaped worker.',
 'C06': 'Also: the scan generator (owner of the signalled set) has one driver: the scanner thread, or the result loop '
        'only in a pool without threads.',
 'C07': 'Also: close() flags only the supervisor; no fork once the pool left RUN; feeder and result handler keep the '
        'live worker list / cache / counters; the accepting worker is recorded as owner on every accepting path.',
 'C08': 'Also: the feeder re-checks the state before every put; the pool\'s pipes are read and written inside `with '
        '<lock>`; termination handlers are installed after the user initializer and on every path; the untimed join '
        'blocks in waitpid, not on the sentinel.',
 'C09': 'Also: the result handler looks at the pool\'s own counter table (replacement workers register later).',
 'C10': 'Also: shrink lowers the bound before it takes the slot.',
 'C11': 'Also: the pool\'s own limiter reaches the result handler before the supervisor swaps it; one burst limiter '
        'for all start-up ticks.',
 'C12': 'Also: the traceback text is made from the traceback that was handed in; no stand-in is shared through a '
        'memo table keyed by less than its input or through class-level state.',
 'C14': 'Also: the heap lock is not re-entrant; heap state is per instance and completely re-created by the '
        'constructor, which a process other than the owner runs before it allocates.',
 'C15': 'Also: a forked child starts from an empty heap; every SemLock installs the after-fork hook that resets the '
        'inherited owner count; generated wrapper classes are cached under what they were generated from.',
 'C16': 'Also: test-and-start of the feeder thread is atomic; everything a queue does not pickle is re-created by the '
        'after-fork hook; JoinableQueue forwards maxsize.',
 'C17': 'Also: every grabbed sleeper gets a wake token; every SemLock installs the after-fork hook; the lock classes '
        'forward kind / value / bound to SemLock.',
 'C18': 'Also: the digest is keyed with the whole key, also when computed through a helper.',
 'C19': 'Also: spawn hands both child pipe ends to the child and keeps the read end of the inherited pipe as sentinel; '
        'no exit status is made up when waitpid fails; the catch-all of _bootstrap catches base exceptions; an '
        'untimed wait does not depend on the sentinel.',
 'C20': 'Also: the finalizer drops the cached connections and records SHUTDOWN on every path; every proxy installs '
        'the after-fork hook; generated proxy types are cached under name and exposed methods; server tables are per '
        'server.',
}

# round 4 (DESIGN.md section 16)
for _p, _t in {
 'C01': ' The expired-marker scan precedes every way out of the reaper; the outcome is never rewritten once observable.',
 'C02': ' The failure record of a task is made from the whole live exception.',
 'C03': ' _cancel leaves the cache entry for the handshake.',
 'C04': ' The lost-worker marker is written once per job (D11, repaired); owner records of a map job are indexed per '
        'item; naming an exit status cannot raise.',
 'C06': ' Whatever blocks a signal in worker code unblocks it on every way out.',
 'C07': ' join() does not wait for the time-limit scanner.',
 'C08': ' The worker looks at the exit-requested flag before taking another job (D10, repaired); Process.terminate() '
        'sends TERM_SIGNAL; the lists handed to the finalizer are never re-bound.',
 'C09': ' Workers are started from one place (callers of the refill / fork).',
 'C10': ' Whoever calls the reaper hands its result to the slot release (D12: did_start_ok, repaired).',
 'C12': ' The positions table of a code stand-in is copied whole.',
 'C14': ' Nothing changes the free lists between the best-fit search and the use of its result.',
 'C16': ' join() tests and waits inside one critical section; the framing loops of the connection (write-all, '
        'read-exactly) are part of this check.',
 'C17': ' Timed-out waiters are reconciled before a wake-up.',
 'C19': ' Nothing in the final clean-up of _bootstrap can raise past the decided exit code.',
 'C20': ' _incref tells the server and arms its finalizer on every path.',
}.items():
    ADDED[_p] = ADDED.get(_p, '') + _t

# round 6 (DESIGN.md section 20)
for _p, _t in {
 'C01': ' The time-limit scan tests the hard limit of every job of a pass; every supervision tick refills the pool.',
 'C03': ' Worker.__reduce__ and its rebuild callable agree position by position (the handshake queue reaches a spawned worker).',
 'C04': ' The restart limiter counts inside one real window; every exit of the work loop passes the consumed-results wait.',
 'C05': ' One scan pass is not interrupted (no yield / return / break inside the per-job loop); the limits recorded for a '
        'job are the caller\'s or the pool defaults, nothing derived.',
 'C06': ' The accepting worker is recorded as owner before the accept callback runs.',
 'C07': ' A new worker is entered in the per-pid tables right after start(), before the user hook.',
 'C08': ' Workers are signalled before the result handler is joined; the feeder sends the sentinels on every way out.',
 'C09': ' The worker leaves through os._exit(status) on every edge of its farewell; the limiter is consulted exactly for '
        'abnormal statuses.',
 'C10': ' Only close() hands back all slots at once.',
 'C11': ' The reaper returns every recorded exit status unaltered.',
 'C12': ' The failure record keeps the exception object it was given.',
 'C13': ' close() forgets the handle on every way out of the low-level close.',
 'C15': ' An array made from an initialiser is filled through the type\'s constructor on every path.',
 'C16': ' Condition.notify / notify_all keep the sleeper / token accounting exact (join() depends on it).',
 'C18': ' Both ends key the digest with the key as given; a connection\'s descriptor gets no second owner.',
 'C19': ' The fork-server launcher reads the status only while no code is cached (`is None`, not truth).',
 'C20': ' An in-place proxy operator is one request; proxy methods forward their own arguments unchanged.',
}.items():
    ADDED[_p] = ADDED.get(_p, '') + _t

# round 7 (DESIGN.md section 21)
for _p, _t in {
 'C01': ' No handle re-binds the position of an outcome; a failure of the task sequence is filed past the last sent part; '
        'the owner lists of a map job are per item; close() flags only the supervisor.',
 'C04': ' shrink() lowers the configured size once per worker it retires.',
 'C08': ' The completed counter moves only after the result was sent.',
 'C09': ' The sys.exit wrapper records every status; the consumed-results wait is left early only when everything was '
        'counted; a new worker is registered before the user hook.',
 'C12': ' No picklable stand-in has a catch-all attribute hook.',
 'C16': ' Only the feeder touches the write end of a Queue; JoinableQueue.put counts under the buffer lock; a waiter is '
        'counted as sleeping before it releases the lock.',
 'C19': ' poll()/wait() of the launchers are not serialised by a lock; the fork-server status pipe has exactly two readers.',
 'C20': ' The referent call has its own Exception -> #ERROR handler and #RETURN carries its result; wait_for re-evaluates '
        'the predicate after every wait.',
}.items():
    ADDED[_p] = ADDED.get(_p, '') + _t

# round 8 (DESIGN.md section 23)
for _p, _t in {
 'C01': ' Only the handle classes remove cache entries; a result for a cached job always reaches the handle; a handle is '
        'ready before its callbacks run.',
 'C04': ' Whether a worker exited is decided by waitpid alone (poll and the reaper); a result for a suspected job reaches '
        'the handle.',
 'C05': ' The worker looks at the exit-requested flag before the next job.',
 'C06': ' close() / join() neither flag nor wait for the scanner.',
 'C08': ' Every handler thread the finalizer is given is bound in __init__ only.',
 'C09': ' Every worker gets a fresh consumed-results counter; the reaper asks every worker for its exit code.',
 'C10': ' Each retired worker shrinks the semaphore by one.',
 'C11': ' The limiter reads the clock itself; the refill gets the reaper\'s result.',
 'C12': ' A stand-in nests another of its kind only under a depth bound.',
 'C13': ' Header and payload are both read through the read-exactly loop.',
 'C15': ' A synchronized array hands out the element itself, not a copy.',
 'C16': ' The feeder sleeps only after finding the buffer empty under the lock.',
 'C17': ' The after-fork hook never releases or acquires the shared semaphore.',
 'C19': ' No answer of poll() before waitpid; process._children is a fresh own set in every process.',
 'C20': ' A proxy call reads its reply before anything else; RebuildProxy takes no reference while inheriting.',
}.items():
    ADDED[_p] = ADDED.get(_p, '') + _t

# round 9 / mutation sweep (DESIGN sections 25-27): one sentence per property, appended to ADDED
_R9 = {
 'C01': 'Pool-made failures are records of a live exception of the right type; a job past its hard limit is failed whether or not its worker is still listed; every executed job sends one READY or the worker dies.',
 'C02': 'MapResult counts each part once before the zero test and becomes ready on success only when none is left; a result reaches its handle whatever the per-worker tables hold.',
 'C03': 'A refused (NACKed) job gets no owner pid / acceptance time on any path of _ack; after a NACK the worker goes back to waiting; every handle gets send_ack exactly for handshake pools.',
 'C04': 'worker_pids() of every handle class answers with the owners _ack recorded; the lost-worker failure is a live WorkerLostError.',
 'C05': 'A pending job past its hard limit is always failed (only the kill depends on finding the process); no pass of the scanner skips the walk over the cache; a job with a limit of its own is submitted only after the lazily started scanner was started.',
 'C06': 'No scanner pass skips the walk over the cache; a refused job has no owner whose next job the soft limit could hit.',
 'C07': 'A worker that reads the sentinel / a dead pipe / a set restart event leaves (SystemExit on every path); a new worker is listed before it is started; only restart() sets a worker\'s shutdown event.',
 'C08': 'terminate()/close() of a pool thread publish TERMINATE/CLOSE; with the exit-requested flag set the worker never reaches the next job; _should_override_term_signal decided as a truth table; no termination signal is ever set to SIG_IGN in worker code; worker listed before started.',
 'C09': 'Every supervisor iteration that finds thread and pool running calls _maintain_pool(); RawValue zero-fills (per-worker counters); Popen.terminate sends the remappable TERM_SIGNAL; shrink(n) leaves its loop exactly after n workers.',
 'C11': 'A refused restart closes the pool and is re-raised out of the supervisor; the window expires by the clock alone (its reset is not behind the budget test).',
 'C13': 'Header encode/decode are compared in one normal form (struct formats; int.to_bytes/from_bytes read as the equivalent format incl. signedness).',
 'C14': 'The block recorded for a new arena has exactly the size the arena was built with; a block merged away leaves all three free indexes.',
 'C16': 'Nothing can refuse an item between taking a place in the capacity semaphore and appending it; the base SimpleQueue touches the pipe only inside the hooks the locked subclass overrides; put() wakes / starts the feeder after the append and the feeder sends every item it takes.',
 'C19': 'connection.wait polls once for a non-positive timeout; no deadline in the waiting code is taken from time.time().',
 'C20': 'A forked child clears inherited finalizers before the after-fork hooks run; register() un-shares the registry by a test on the class\'s own namespace.',
}
for _k, _v in _R9.items():
    ADDED[_k] = (ADDED.get(_k, '') + ' ' + _v).strip()
