# Claims table, exec'd by gen_manifest.py.  claim(pid, technique, text, note, design_ref)
# decline(pid, reason)

_NB = 'checker for the decidable clauses (DESIGN.md section 3) not built yet in this round'

claim('C03',
      'CFG must-pass / path-count / guard rules over Worker.workloop and ApplyResult._ack',
      'Decides on every path of the worker loop (including exception edges and the NACK branch): a completed '
      'ACK put carrying (job, part, clock read, own pid) precedes the task call; exactly one completed READY put '
      'per executed job (fallback only on the failure edge of the first, flagged as failure); the NACK answer '
      'reaches the loop head without task call, READY or quota increment; the quota counter moves by one per '
      'executed job and is compared with <; the parent records owner/time before the accept callback and '
      'answers NACK without owner on the cancelled arm; the dispatch table covers ACK/READY/DEATH with matching '
      'arity. These are necessary conditions of the property, decided for all paths rather than the one '
      'schedule a test sees.',
      'Not decided: that the parent processes ACK before READY at run time (follows from one FIFO pipe + one '
      'consumer thread, assumed); behaviour of a hostile synq peer; message loss in the kernel. Trusted: CPython '
      'ast, the anchor table (Worker.workloop, wait_for_syn closure, ApplyResult._ack, _make_methods).',
      'DESIGN.md section 3, C03')

for _p in ['C01', 'C02', 'C04', 'C05', 'C06', 'C07', 'C08', 'C09', 'C10', 'C11', 'C12', 'C13', 'C14',
           'C15', 'C16', 'C17', 'C18', 'C19', 'C20']:
    decline(_p, _NB)
