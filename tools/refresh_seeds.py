#!/usr/bin/env python3
"""Re-run every quick check against every stored seeded change (applied to /repo, then undone) and
refresh `reported_by_checks` / `reported_rules` in seeded/*/meta.json.  Prints one line per seed and
fails if a seed is reported by no check, or not by the check of the property it breaks."""
import glob
import json
import os
import re
import subprocess
import sys

bad = 0
for d in sorted(glob.glob('/verif/seeded/*/')):
    meta_p = os.path.join(d, 'meta.json')
    meta = json.load(open(meta_p))
    out = subprocess.run(['/verif/tools/seedcheck.sh', os.path.join(d, 'patch.diff')],
                         capture_output=True, text=True).stdout
    by_prop = sorted(set(re.findall(r'^(C\d\d) rc=1', out, re.M)))
    errs = sorted(set(re.findall(r'^(C\d\d) rc=2', out, re.M)))
    rules = sorted(set(re.findall(r'VIOLATED (R[0-9.]+ [^\n]*?) at billiard', out)))
    meta['reported_by_checks'] = by_prop
    meta['reported_rules'] = rules[:12]
    if errs:
        meta['analysis_errors'] = errs
    json.dump(meta, open(meta_p, 'w'), indent=1)
    own = meta['breaks_property'] in by_prop
    print('%-7s own-check:%-3s reported by %s %s' % (meta['seed'], 'yes' if own else 'NO', by_prop,
                                                    ('ANALYSIS-ERROR in %s' % errs) if errs else ''))
    if not by_prop or 'PATCH DOES NOT APPLY' in out:
        bad += 1
sys.exit(1 if bad else 0)
