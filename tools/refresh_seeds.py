#!/usr/bin/env python3
"""Re-run every quick check against every stored seeded change and refresh `reported_by_checks` /
`reported_rules` in seeded/*/meta.json.  Each change is applied to a scratch copy of /repo/billiard under a
temporary directory outside /repo and /verif (removed afterwards); the checks read that copy (`--repo`), so /repo is
never touched and the seeds are evaluated in parallel.  Prints one line per seed and fails if a seed is not reported
by the check of the property it breaks, or does not apply."""
import glob
import json
import multiprocessing as mp
import os
import re
import shutil
import subprocess
import sys
import tempfile

PROPS = ['C%02d' % i for i in range(1, 21)]


def one(d):
    meta_p = os.path.join(d, 'meta.json')
    meta = json.load(open(meta_p))
    tmp = tempfile.mkdtemp(prefix='seedrun_')
    try:
        shutil.copytree('/repo/billiard', os.path.join(tmp, 'billiard'),
                        ignore=shutil.ignore_patterns('__pycache__', '*.pyc', '*.so'))
        r = subprocess.run(['git', 'apply', '--unsafe-paths', os.path.join(d, 'patch.diff')], cwd=tmp,
                           capture_output=True, text=True)
        if r.returncode != 0:
            return meta['seed'], meta['breaks_property'], None, [], [], 'PATCH DOES NOT APPLY: ' + r.stderr.strip()[-100:]
        by_prop, errs, rules = [], [], set()
        for p in PROPS:
            c = subprocess.run(['/venv/bin/python', '/verif/check.py', p, '--tier', 'quick', '--repo', tmp,
                                '--evidence-dir', tmp], capture_output=True, text=True)
            if c.returncode == 1:
                by_prop.append(p)
                rules |= set(re.findall(r'VIOLATED (R[0-9.]+ [^\n]*?) at billiard', c.stdout))
            elif c.returncode != 0:
                errs.append(p)
        meta['reported_by_checks'] = by_prop
        meta['reported_rules'] = sorted(rules)[:12]
        if errs:
            meta['analysis_errors'] = errs
        else:
            meta.pop('analysis_errors', None)
        json.dump(meta, open(meta_p, 'w'), indent=1)
        return meta['seed'], meta['breaks_property'], by_prop, errs, sorted(rules), ''
    finally:
        shutil.rmtree(tmp, ignore_errors=True)


def main():
    dirs = sorted(glob.glob('/verif/seeded/*/'))
    if len(sys.argv) > 1:
        dirs = [d for d in dirs if any(a in d for a in sys.argv[1:])]
    bad = 0
    with mp.Pool(min(14, os.cpu_count() or 1)) as pool:
        for seed, prop, by_prop, errs, rules, err in pool.imap(one, dirs):
            if by_prop is None:
                print('%-9s %s' % (seed, err))
                bad += 1
                continue
            own = prop in by_prop
            print('%-9s own-check:%-3s reported by %s %s' % (seed, 'yes' if own else 'NO', by_prop,
                                                            ('ANALYSIS-ERROR in %s' % errs) if errs else ''))
            if not own:
                bad += 1
    sys.exit(1 if bad else 0)


if __name__ == '__main__':
    main()
