#!/venv/bin/python
"""mutsweep.py [--files a.py,b.py] [--jobs N] [--out FILE]: generic mutation sweep, a map of the checker's blind spots.

For every function of the anchored files of /repo/billiard, small syntactic mutants are built in memory (statement
replaced by `pass`, branch test negated, comparison operator moved to its neighbour, `and` <-> `or`, `not` dropped,
`break`/`continue` swapped, a handler's exception type narrowed to one that never matches, a `finally` body emptied) and all twenty quick rule sets
are run on the overlay (nothing is written to disk, nothing of billiard is executed).  One JSON line per mutant says
which checks report something new relative to the unchanged tree.  The survivors are *candidates*: most of them are
either equivalent, break the test suite, or break no listed property; the ones that break a property silently are
what the next rule should be about.  This is a development tool, not a registered check."""
import argparse
import ast
import json
import multiprocessing as mp
import os
import sys

HERE = os.path.dirname(os.path.dirname(os.path.abspath(__file__)))
sys.path.insert(0, HERE)

FILES = ['pool.py', 'common.py', 'einfo.py', 'connection.py', 'heap.py', 'sharedctypes.py', 'queues.py',
         'synchronize.py', 'process.py', 'popen_fork.py', 'popen_forkserver.py', 'popen_spawn_posix.py',
         'forkserver.py', 'managers.py', 'reduction.py', 'util.py', 'context.py', 'spawn.py', 'semaphore_tracker.py',
         'exceptions.py', 'compat.py', 'resource_sharer.py', 'dummy/__init__.py']

CMP = {ast.Lt: ast.LtE, ast.LtE: ast.Lt, ast.Gt: ast.GtE, ast.GtE: ast.Gt, ast.Eq: ast.NotEq, ast.NotEq: ast.Eq,
       ast.Is: ast.IsNot, ast.IsNot: ast.Is, ast.In: ast.NotIn, ast.NotIn: ast.In}


def seg(src_lines, node):
    return ast.get_source_segment('\n'.join(src_lines), node)


def replace_span(lines, node, text):
    """Replace the source span of node by text (one line, no newlines in text unless node is a statement)."""
    l0, c0, l1, c1 = node.lineno - 1, node.col_offset, node.end_lineno - 1, node.end_col_offset
    # col offsets are utf8 byte offsets
    b0 = lines[l0].encode('utf8')
    b1 = lines[l1].encode('utf8')
    head = b0[:c0].decode('utf8')
    tail = b1[c1:].decode('utf8')
    new = lines[:l0] + [head + text + tail] + lines[l1 + 1:]
    # keep line count stable: pad with blank lines is unsafe inside expressions; accept shifted lines
    return new


def mutants_of(rel, src):
    tree = ast.parse(src)
    lines = src.split('\n')
    out = []

    def qual_walk(node, qual):
        for ch in ast.iter_child_nodes(node):
            if isinstance(ch, (ast.FunctionDef, ast.AsyncFunctionDef)):
                q = qual + [ch.name]
                visit_func(ch, '.'.join(q))
                qual_walk(ch, q)
            elif isinstance(ch, ast.ClassDef):
                qual_walk(ch, qual + [ch.name])
            else:
                qual_walk(ch, qual)

    def add(qual, node, op, new_lines, before, after):
        text = '\n'.join(new_lines)
        try:
            compile(text, rel, 'exec')
        except SyntaxError:
            return
        out.append({'file': rel, 'qual': qual, 'line': node.lineno, 'op': op, 'before': before[:200],
                    'after': after[:200], 'src': text})

    def visit_func(fn, qual):
        own = []

        def collect(n):
            for ch in ast.iter_child_nodes(n):
                if isinstance(ch, (ast.FunctionDef, ast.AsyncFunctionDef, ast.ClassDef, ast.Lambda)):
                    continue
                own.append(ch)
                collect(ch)
        collect(fn)
        for n in own:
            if isinstance(n, ast.stmt):
                s = seg(lines, n) or ''
                first = s.split('\n')[0]
                if isinstance(n, (ast.Expr, ast.Assign, ast.AugAssign, ast.Raise, ast.Delete, ast.Assert)):
                    if isinstance(n, ast.Expr) and isinstance(n.value, ast.Constant):
                        continue  # docstring
                    add(qual, n, 'del-stmt', replace_span(lines, n, 'pass'), first, 'pass')
                elif isinstance(n, ast.Return) and n.value is not None:
                    add(qual, n, 'return-none', replace_span(lines, n, 'return'), first, 'return')
                elif isinstance(n, ast.Break):
                    add(qual, n, 'break->continue', replace_span(lines, n, 'continue'), 'break', 'continue')
                elif isinstance(n, ast.Continue):
                    add(qual, n, 'continue->break', replace_span(lines, n, 'break'), 'continue', 'break')
                if isinstance(n, (ast.If, ast.While)):
                    t = seg(lines, n.test)
                    if not (isinstance(n.test, ast.Constant)):
                        add(qual, n.test, 'negate-test', replace_span(lines, n.test, 'not (%s)' % t),
                            t, 'not (%s)' % t)
                if isinstance(n, ast.Try):
                    for h in n.handlers:
                        if h.type is not None:
                            t = seg(lines, h.type)
                            add(qual, h.type, 'handler-never', replace_span(lines, h.type, '()'),
                                'except ' + t, 'except ()')
            elif isinstance(n, ast.Compare) and len(n.ops) == 1 and type(n.ops[0]) in CMP:
                m = ast.Compare(n.left, [CMP[type(n.ops[0])]()], n.comparators)
                t = seg(lines, n)
                a = ast.unparse(m)
                add(qual, n, 'cmp-neighbour', replace_span(lines, n, '(%s)' % a), t, a)
            elif isinstance(n, ast.BoolOp):
                m = ast.BoolOp(ast.Or() if isinstance(n.op, ast.And) else ast.And(), n.values)
                t = seg(lines, n)
                a = ast.unparse(m)
                add(qual, n, 'and<->or', replace_span(lines, n, '(%s)' % a), t, a)
            elif isinstance(n, ast.UnaryOp) and isinstance(n.op, ast.Not):
                t = seg(lines, n)
                a = seg(lines, n.operand)
                add(qual, n, 'drop-not', replace_span(lines, n, '(%s)' % a), t, a)
            elif isinstance(n, ast.IfExp):
                t = seg(lines, n)
                a = ast.unparse(ast.IfExp(n.test, n.orelse, n.body))
                add(qual, n, 'ifexp-swap', replace_span(lines, n, '(%s)' % a), t, a)

    qual_walk(tree, [])
    return out


_BASE = None


def run_all(repo, overlay):
    import check
    from sa.model import Model, AnalysisError
    res = {}
    try:
        model = Model(repo, overlay=overlay)
    except AnalysisError as e:
        return {'*': ('noverdict', str(e)[:150])}
    except Exception as e:  # checker crash while loading
        return {'*': ('crash', repr(e)[:150])}
    for p in check.ALL:
        try:
            ctx = check.run_rules(model, p, 'quick')
            v = {(o.rule, o.key) for o in ctx.violations()}
            res[p] = ('ok', v, list(ctx.analysis_errors))
        except AnalysisError as e:
            res[p] = ('noverdict', str(e)[:150])
        except Exception as e:
            res[p] = ('crash', repr(e)[:150])
    return res


def init(repo):
    global _BASE
    sys.stdout = open(os.devnull, 'w')
    _BASE = run_all(repo, None)


def one(args):
    repo, m = args
    res = run_all(repo, {'billiard/' + m['file']: m['src']})
    fired, nov, rules = [], [], []
    for p, r in sorted(res.items()):
        if r[0] == 'ok':
            base = _BASE[p][1] if _BASE.get(p, ('x',))[0] == 'ok' else set()
            new = r[1] - base
            if new:
                fired.append(p)
                rules.extend(sorted({k[0] for k in new}))
            elif r[2]:
                nov.append(p)
        else:
            nov.append(p + ':' + r[0])
    rec = {k: m[k] for k in ('file', 'qual', 'line', 'op', 'before', 'after')}
    rec.update(fired=fired, noverdict=nov, rules=sorted(set(rules)))
    return rec


def main():
    ap = argparse.ArgumentParser()
    ap.add_argument('--repo', default='/repo')
    ap.add_argument('--files', default=','.join(FILES))
    ap.add_argument('--jobs', type=int, default=12)
    ap.add_argument('--out', default='/tmp/mutsweep.jsonl')
    ap.add_argument('--only-qual', default=None)
    ap.add_argument('--skip-done', default=None, help='jsonl of an earlier run: mutants already there are skipped')
    a = ap.parse_args()
    work = []
    for rel in a.files.split(','):
        p = os.path.join(a.repo, 'billiard', rel)
        if not os.path.exists(p):
            continue
        ms = mutants_of(rel, open(p).read())
        if a.only_qual:
            ms = [m for m in ms if a.only_qual in m['qual']]
        work.extend((a.repo, m) for m in ms)
    if a.skip_done and os.path.exists(a.skip_done):
        done = set()
        for l in open(a.skip_done):
            r = json.loads(l)
            done.add((r['file'], r['qual'], r['line'], r['op'], r['before']))
        work = [(r, m) for (r, m) in work
                if (m['file'], m['qual'], m['line'], m['op'], m['before'][:200]) not in done]
    sys.stderr.write('%d mutants\n' % len(work))
    n = sil = 0
    with mp.Pool(a.jobs, initializer=init, initargs=(a.repo,)) as pool, open(a.out, 'w') as f:
        for rec in pool.imap_unordered(one, work, chunksize=4):
            f.write(json.dumps(rec) + '\n')
            f.flush()
            n += 1
            if not rec['fired'] and not rec['noverdict']:
                sil += 1
    sys.stderr.write('%d mutants, %d silent\n' % (n, sil))


if __name__ == '__main__':
    main()
