#!/bin/bash
# verify_seed.sh <Cxx> <k>: confirm a sub-agent's seeded change in its scratch worktree:
# demo PASS on clean tree, FAIL with patch, test suite passes with patch. Leaves the worktree clean.
P=$1; K=$2; WT=${WT_ROOT:-/tmp/wt}/$P; D=$WT/out/$K; OUT=${SV_DIR:-/tmp/seedverify}/${P}_$K.txt
exec > $OUT 2>&1
cd $WT || exit 2
git checkout -q -- . ; git status --short | grep -v '^??' 
run_demo() { (setsid timeout -s KILL 120 /venv/bin/python $D/demo.py > ${SV_DIR:-/tmp/seedverify}/${P}_${K}_demo.out 2>&1 < /dev/null; echo "exit=$?" >> ${SV_DIR:-/tmp/seedverify}/${P}_${K}_demo.out) ; tail -n 3 ${SV_DIR:-/tmp/seedverify}/${P}_${K}_demo.out | tr '\n' ' ' | cut -c1-400; echo; }
echo "== clean demo"; run_demo
git apply --check $D/patch.diff && git apply $D/patch.diff || { echo "PATCH DOES NOT APPLY"; exit 1; }
/venv/bin/python -m compileall -q billiard > /dev/null && echo "compiles"
echo "== patched demo"; run_demo
echo "== patched test suite"
(setsid timeout -s KILL 400 /venv/bin/python -m pytest -q -p no:cacheprovider --timeout=300 t/unit > ${SV_DIR:-/tmp/seedverify}/${P}_${K}_pytest.out 2>&1 < /dev/null); tail -n 1 ${SV_DIR:-/tmp/seedverify}/${P}_${K}_pytest.out
git checkout -q -- .
echo "== applies to /repo HEAD:"; git -C /repo apply --check $D/patch.diff && echo yes || echo "NO (needs rebase)"
echo DONE
