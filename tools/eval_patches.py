#!/usr/bin/env python3
"""eval_patches.py <patch> [<patch> ...]: apply each patch to a scratch copy of /repo/billiard (outside /repo and
/verif, removed afterwards) and run all twenty quick checks on the copy.  Prints, per patch, the checks that exit 1
(VIOLATION) or 2 (no verdict) with the obligations they report.  Used for behaviour-preserving changes: every line
printed is a false alarm to look into."""
import multiprocessing as mp
import os
import re
import shutil
import subprocess
import sys
import tempfile

PROPS = ['C%02d' % i for i in range(1, 21)]


def one(patch):
    tmp = tempfile.mkdtemp(prefix='evalrun_')
    try:
        shutil.copytree('/repo/billiard', os.path.join(tmp, 'billiard'),
                        ignore=shutil.ignore_patterns('__pycache__', '*.pyc', '*.so'))
        r = subprocess.run(['git', 'apply', '--unsafe-paths', patch], cwd=tmp, capture_output=True, text=True)
        if r.returncode != 0:
            return patch, [('APPLY', 3, r.stderr.strip()[-160:])]
        out = []
        for p in PROPS:
            c = subprocess.run(['/venv/bin/python', os.environ.get('VERIF_ROOT', '/verif') + '/check.py', p, '--tier', 'quick', '--repo', tmp,
                                '--evidence-dir', tmp], capture_output=True, text=True)
            if c.returncode != 0:
                lines = re.findall(r'VIOLATED (R[0-9.]+ [^\n]*)|ANALYSIS-ERROR[^\n]*reason=([^\n]*)', c.stdout)
                out.append((p, c.returncode, ' || '.join((a or b)[:200] for a, b in lines)[:700]))
        return patch, out
    finally:
        shutil.rmtree(tmp, ignore_errors=True)


if __name__ == '__main__':
    patches = [os.path.abspath(p) for p in sys.argv[1:]]
    alarms = 0
    with mp.Pool(min(14, os.cpu_count() or 1)) as pool:
        for patch, out in pool.imap(one, patches):
            if out:
                alarms += 1
                for (p, rc, txt) in out:
                    print('%s: %s rc=%d %s' % (patch, p, rc, txt))
            else:
                print('%s: silent' % patch)
    print('%d of %d patches raised something' % (alarms, len(patches)))
