#!/venv/bin/python
"""Entry point: /venv/bin/python /verif/check.py <property-id> [--tier quick|thorough]

Exit 0: every obligation discharged (known findings printed as KNOWN-FINDING);
exit 1: at least one violation not listed in known_findings.json (VIOLATION line);
exit 2: analysis broken (vanished anchor, checker self-test failure, checker bug).
"""
import argparse
import importlib
import json
import os
import sys
import time
import traceback

HERE = os.path.dirname(os.path.abspath(__file__))
sys.path.insert(0, HERE)

from sa.model import Model, AnalysisError          # noqa: E402
from sa.report import Ctx, split_known, write_evidence, VERIF  # noqa: E402

ALL = ['C%02d' % i for i in range(1, 21)]


from sa.localfp import check_local_anchors      # noqa: E402


def run_rules(model, prop, tier):
    """Runs the statements of the property's run() one by one, so that a rule that lost its anchor (AnalysisError)
    does not keep the other rules from reporting.  ctx.analysis_errors lists the rules that gave no verdict; the
    caller turns them into exit 2 unless the other rules already found a violation to report (exit 1)."""
    import ast
    import inspect
    import textwrap
    check_local_anchors(model, prop)
    ctx = Ctx(model, prop, tier)
    ctx.analysis_errors = []
    mod = importlib.import_module('sa.rules.' + prop.lower())
    body = ast.parse(textwrap.dedent(inspect.getsource(mod.run))).body[0].body
    ns = dict(vars(mod))
    ns['ctx'] = ctx
    for st in body:
        code = compile(ast.Module([st], []), mod.__file__, 'exec')
        try:
            exec(code, ns)
        except AnalysisError as e:
            ctx.analysis_errors.append(str(e))
    if not ctx.analysis_errors:
        try:
            ctx.check_floors()
        except AnalysisError as e:
            # a rule that stopped early because it found a violation has fewer instances than usual: with a violation
            # to report this is exit 1 (below), without one it is "no verdict"
            ctx.analysis_errors.append(str(e))
    for what in sorted(set(model.inlined)):
        ctx.note('read in normal form (new relative to the reference tree): %s' % what)
    for what in getattr(model, 'renamed_back', []):
        ctx.note('local renamed relative to the reference tree, followed by its definition shape: %s' % what)
    return ctx


def main(argv=None):
    ap = argparse.ArgumentParser()
    ap.add_argument('prop')
    ap.add_argument('--tier', default=os.environ.get('VERIF_TIER') or 'quick',
                    choices=['quick', 'thorough'])
    ap.add_argument('--repo', default=os.environ.get('VERIF_REPO', '/repo'))
    ap.add_argument('--evidence-dir', default=None)
    ap.add_argument('--verbose', '-v', action='store_true')
    args = ap.parse_args(argv)
    prop = args.prop.upper()
    seed = int(os.environ.get('VERIF_SEED') or 0)
    t0 = time.time()
    try:
        if prop not in ALL:
            raise AnalysisError('unknown property %s' % prop)
        model = Model(args.repo)
        ctx = run_rules(model, prop, args.tier)
        selftest = None
        if args.tier == 'thorough':
            from sa.selftest import run_selftest
            selftest = run_selftest(prop, args.repo, seed)
        viol = ctx.violations()
        known, new = split_known(prop, viol)
        if ctx.analysis_errors and not new:
            # some rule lost its anchor and no other rule has anything to report: no verdict
            raise AnalysisError('; '.join(ctx.analysis_errors))
        for e in ctx.analysis_errors:
            ctx.note('rule gave no verdict on this tree (anchor not found): %s' % e)
        path = write_evidence(ctx, time.time() - t0, seed, known=known, new=new,
                              evidence_dir=args.evidence_dir, selftest=selftest)
        counts = {}
        for o in ctx.obs:
            counts[o.rule] = counts.get(o.rule, 0) + 1
        print('%s tier=%s files=%d functions=%d obligations=%d discharged=%d rules=%d wall=%.2fs' % (
            prop, args.tier, len(model.files), len(model.funcs), len(ctx.obs),
            sum(1 for o in ctx.obs if o.ok), len(counts), time.time() - t0))
        if args.verbose:
            for o in ctx.obs:
                print('  %-8s %-9s %s  [%s:%s] %s' % (o.rule, 'ok' if o.ok else 'VIOLATED', o.key,
                                                      o.file, o.line, o.detail))
        else:
            for r in sorted(counts):
                print('  %-8s instances=%-3d %s' % (r, counts[r], ctx.rules_doc.get(r, '')[:110]))
        for n in ctx.notes:
            print('  note: ' + n)
        if selftest:
            print('  selftest: mutants %d/%d detected, twins %d/%d silent' % (
                selftest['mutants_detected'], selftest['mutants_run'],
                selftest['twins_silent'], selftest['twins_run']))
            if selftest.get('failures'):
                for f in selftest['failures']:
                    print('SELFTEST-FAIL ' + f)
                print('ANALYSIS-ERROR property=%s reason=checker self-test failed' % prop)
                return 2
        for (o, e) in known:
            print('KNOWN-FINDING: property=%s rule=%s %s -- %s' % (prop, o.rule, o.key, e.get('what', '')))
        if new:
            rp = os.path.join(args.evidence_dir or os.path.join(VERIF, 'evidence'),
                              prop + '.violations.json')
            with open(rp, 'w') as f:
                json.dump([o.as_dict() for o in new], f, indent=1)
            for o in new:
                print('  VIOLATED %s %s at %s:%s in %s: %s' % (o.rule, o.key, o.file, o.line,
                                                            o.qual, o.detail))
                if o.path:
                    for step in o.path:
                        print('      | ' + step)
            print('VIOLATION property=%s replay=%s' % (prop, rp))
            return 1
        return 0
    except AnalysisError as e:
        print('ANALYSIS-ERROR property=%s reason=%s' % (prop, e))
        return 2
    except Exception:
        traceback.print_exc()
        print('ANALYSIS-ERROR property=%s reason=checker crashed (traceback above)' % prop)
        return 2


if __name__ == '__main__':
    sys.exit(main())
